#!/usr/bin/env python3
"""Generates the hand-written mutant patches (mNN-*.patch) of /verif/mutants from textual substitutions on a
scratch copy of /repo's current tree.  Each mutant is a realistic slip (off-by-one, inverted flag, equality instead
of identity, missing copy, wrong table entry ...) anchored in the mechanisms the properties name."""
import os
import shutil
import subprocess
import sys
import tempfile

HERE = os.path.dirname(os.path.dirname(os.path.abspath(__file__)))
REPO = '/repo'
S = 'src/ansi_string/ansi_string.py'
P = 'src/ansi_string/ansi_parsing.py'
F = 'src/ansi_string/ansi_format.py'
A = 'src/ansi_string/ansi_param.py'

M = [
    ('code-table-21-is-boldness', A, "    21: (AnsiParamEffect.UNDERLINE, AnsiParamEffectFn.APPLY_SETTING),",
     "    21: (AnsiParamEffect.BOLDNESS, AnsiParamEffectFn.APPLY_SETTING),"),
    ('clear-dict-overline-wrong', A, "    AnsiParamEffect.OVERLINE: AnsiParam.NO_OVERLINED,",
     "    AnsiParamEffect.OVERLINE: AnsiParam.NO_FRAMED_ENCIRCLED,"),
    ('code-table-6-applies-nothing', A, "    6: (AnsiParamEffect.BLINKING, AnsiParamEffectFn.APPLY_SETTING),",
     "    6: (AnsiParamEffect.BLINKING, AnsiParamEffectFn.CLEAR_SETTING),"),
    ('no-reset-when-settings-stop', S, "            if settings.rem and settings_to_apply:\n",
     "            if settings.rem and len(settings_to_apply) > 1:\n"),
    ('optimizer-compares-old-with-old', S,
     "                    if key not in old_settings_dict or old_settings_dict[key] != value\n",
     "                    if key not in old_settings_dict or new_settings_dict[key] != value\n"),
    ('optimizer-prefers-longer', S, "                elif len(optimized_codes_str) < len(codes_str):\n",
     "                elif len(optimized_codes_str) <= len(codes_str) + 2:\n"),
    ('tostr-cutoff-gt', S, "            if idx >= len(obj):\n                # Invalid\n",
     "            if idx > len(obj):\n                # Invalid\n"),
    ('reset-end-always-skipped-after-clear', S, "            settings_exist = bool(current_settings)\n",
     "            settings_exist = bool(current_settings) and bool(codes_str)\n"),
    ('topmost-inverted', S, "        self._fmts[start].insert_settings(True, ansi_settings, topmost)\n",
     "        self._fmts[start].insert_settings(True, ansi_settings, not topmost)\n"),
    ('apply-no-make-unique', S, "        ansi_settings = _AnsiSettingPoint._scrub_ansi_settings(settings, make_unique=True)\n",
     "        ansi_settings = _AnsiSettingPoint._scrub_ansi_settings(settings)\n"),
    ('rjust-keep-origin-inverted', S, "            obj._shift_settings_idx(num, extend_formatting)\n",
     "            obj._shift_settings_idx(num, not extend_formatting)\n"),
    ('shift-iterates-upwards', S, "        for key in sorted(self._fmts.keys(), reverse=True):\n            if not keep_origin or key != 0:",
     "        for key in sorted(self._fmts.keys()):\n            if not keep_origin or key != 0:"),
    ('copy-ctor-shares-lists', S, "                self._fmts[k] = _AnsiSettingPoint(list(v.add), list(v.rem))\n            self._s = from_ansi_string._s",
     "                self._fmts[k] = _AnsiSettingPoint(v.add, v.rem)\n            self._s = from_ansi_string._s"),
    ('ansistr-upper-skips-copy', S, "        cpy = self._s.copy()\n        cpy.upper(inplace=True)\n        return AnsiStr(cpy)",
     "        cpy = self._s\n        cpy.upper(inplace=True)\n        return AnsiStr(cpy)"),
    ('ansistr-apply-skips-copy', S, "        cpy = self._s.copy()\n        cpy.apply_formatting(settings, start, end, topmost)\n        return AnsiStr(cpy)",
     "        cpy = self._s\n        cpy.apply_formatting(settings, start, end, topmost)\n        return AnsiStr(cpy)"),
    ('match-case-inverted', S, "        for match in re.finditer(matchspec, self._s, re.IGNORECASE if not match_case else 0):\n            if count < 0 or count > 0:\n                self.apply_formatting_for_match",
     "        for match in re.finditer(matchspec, self._s, re.IGNORECASE if match_case else 0):\n            if count < 0 or count > 0:\n                self.apply_formatting_for_match"),
    ('unformat-count-off-by-one', S, "                self.remove_formatting(format, match.start(0), match.end(0))\n                if count > 0:\n                    count -= 1",
     "                self.remove_formatting(format, match.start(0), match.end(0))\n                if count > 1:\n                    count -= 1"),
    ('format-matching-no-escape', S, "        if not regex:\n            matchspec = re.escape(matchspec)\n\n        for match in re.finditer(matchspec, self._s, re.IGNORECASE if not match_case else 0):\n            if count < 0 or count > 0:\n                self.apply_formatting_for_match",
     "        if regex:\n            matchspec = re.escape(matchspec)\n\n        for match in re.finditer(matchspec, self._s, re.IGNORECASE if not match_case else 0):\n            if count < 0 or count > 0:\n                self.apply_formatting_for_match"),
    ('find-settings-wrong-direction', S, "            for idx in sorted(idx_to_settings.keys(), reverse=reverse):\n",
     "            for idx in sorted(idx_to_settings.keys(), reverse=not reverse):\n"),
    ('find-settings-end-any-instead-of-all', S, "                if False in [x in current_settings for x in ansi_settings]:\n                    found_end = idx",
     "                if True not in [x in current_settings for x in ansi_settings]:\n                    found_end = idx"),
    ('settings-at-upper-bound-inclusive', S, "        if idx >= 0 and idx < len(self._s):\n            previous_settings = []",
     "        if idx >= 0 and idx <= len(self._s):\n            previous_settings = []"),
    ('strip-uses-str-strip-default', S, "        if chars is None:\n            chars = WHITESPACE_CHARS\n", "        if chars is None:\n            chars = WHITESPACE_CHARS + '\\x1c\\x1d\\x1e\\x1f\\x85'\n"),
    ('rstrip-counts-from-lcount', S, "        if do_rstrip and lcount < len (self._s):\n            rcount = 0\n            for char in reversed(self._s):",
     "        if do_rstrip and lcount < len (self._s):\n            rcount = 0\n            for char in reversed(self._s[lcount + 1:]):"),
    ('valid-range-off-by-one', F, "            if ord(c) >= ansi_term_ord_range[0] and ord(c) <= ansi_term_ord_range[1]:\n                return False",
     "            if ord(c) > ansi_term_ord_range[0] and ord(c) <= ansi_term_ord_range[1]:\n                return False"),
    ('parsable-accepts-256', F, "            if not isinstance(code, int) or code < 0 or code > 255:", "            if not isinstance(code, int) or code < 0 or code > 256:"),
    ('parsable-cache-poisoned-by-valid', F, "        if hasattr(self, \"_valid\"):\n            return self._valid\n        self._valid = False\n",
     "        if hasattr(self, \"_valid\"):\n            return self._valid\n        self._valid = False\n        self._parsable = False\n"),
    ('helper-erase-line-wrong-final', S, "    return ansi_control_sequence_introducer + str(n) + 'K'", "    return ansi_control_sequence_introducer + str(n) + 'J'"),
    ('helper-position-args-swapped', S, "    return ansi_control_sequence_introducer + str(row) + ';' + str(column) + 'H'",
     "    return ansi_control_sequence_introducer + str(column) + ';' + str(row) + 'H'"),
    ('allow-empty-terminator-ignored', P, "                    (terminator or allow_empty_terminator) and\n", ""),
    ('cs-parser-drops-second-sequence-at-index', P, "                    if idx in self.sequences:\n                        self.sequences[idx].append(current_csi)\n",
     "                    if idx in self.sequences:\n                        self.sequences[idx] = [current_csi]\n"),
    ('rgb-no-clamp-high', F, "            r=min(255, max(0, r_or_rgb))\n", "            r=max(0, r_or_rgb)\n"),
    ('rgb-24bit-wrong-shift', F, "            g = (r_or_rgb & 0x00FF00) >> 8\n", "            g = (r_or_rgb & 0x00FF00) >> 16\n"),
    ('dul-color256-uses-single-underline', F,
     "        elif component == ColorComponentType.DOUBLE_UNDERLINE:\n            return [\n                AnsiSetting(AnsiParam.DOUBLE_UNDERLINE.value),\n                AnsiSetting(__class__.SET_UNDERLINE_COLOR_256.fn(val))",
     "        elif component == ColorComponentType.DOUBLE_UNDERLINE:\n            return [\n                AnsiSetting(AnsiParam.UNDERLINE.value),\n                AnsiSetting(__class__.SET_UNDERLINE_COLOR_256.fn(val))"),
    ('name-lookup-no-hyphen', S, "AnsiFormat[format.upper().replace(' ', '_').replace('-', '_')]", "AnsiFormat[format.upper().replace(' ', '_')]"),
    ('selflist-check-only-top-level', S, "                settings_out += __class__._scrub_ansi_settings(setting, make_unique, parsed_ids, False)",
     "                settings_out += __class__._scrub_ansi_settings(setting, make_unique, combine_ints=False)"),
    ('negative-int-accepted', S, "        if ansi_format < 0:\n            raise ValueError", "        if ansi_format < -1:\n            raise ValueError"),
    ('settings-to-dict-clear-keeps', P, "                if effect in settings_dict:\n                    del settings_dict[effect]",
     "                if effect in settings_dict and len(settings_dict) > 1:\n                    del settings_dict[effect]"),
    ('settings-to-dict-mutates-old', P, "    settings_dict:Dict[AnsiParamEffect, AnsiSetting] = dict(old_settings_dict)",
     "    settings_dict:Dict[AnsiParamEffect, AnsiSetting] = old_settings_dict"),
    ('parse-seq-incomplete-group-emitted', P, "    if current_set and add_erroneous:\n", "    if current_set:\n"),
    ('assign-str-longer-keeps-end-marker', S, "            if len(self._s) in self._fmts:\n                self._fmts[len(s)] = self._fmts.pop(len(self._s))",
     "            if len(self._s) in self._fmts and len(self._fmts) > 2:\n                self._fmts[len(s)] = self._fmts.pop(len(self._s))"),
    ('replace-uses-settings-of-char-before', S, "                replace = AnsiString(new, obj.ansi_settings_at(idx))", "                replace = AnsiString(new, obj.ansi_settings_at(max(idx - 1, 0)))"),
    ('replace-second-match-searches-too-far', S, "            idx = obj._s.find(old, idx + len(replace) + (0 if old else 1))", "            idx = obj._s.find(old, idx + len(replace) + 1)"),
    ('partition-uses-rfind', S, "        idx = self._s.find(sep)\n        if idx >= 0:\n            sep_len = len(sep)", "        idx = self._s.rfind(sep)\n        if idx >= 0:\n            sep_len = len(sep)"),
    ('center-left-gets-extra', S, "            left_spaces = math.floor((num) / 2)", "            left_spaces = math.ceil((num) / 2)"),
    ('format-minus-flag-ignored-for-center', S, "            # Center\n            num = match.group(3)\n            extend_formatting = (not match.group(2) or match.group(2) == '+')",
     "            # Center\n            num = match.group(3)\n            extend_formatting = True"),
    ('format-spec-ansi-applied-before-pad-when-extending', S, "            if extend_formatting and settings:\n                self.apply_formatting(settings)\n            return\n\n        match = re.search(r'^(.?)([+-]?)>([0-9]*)\\Z', string_format, re.DOTALL)",
     "            return\n\n        match = re.search(r'^(.?)([+-]?)>([0-9]*)\\Z', string_format, re.DOTALL)"),
    ('tostr-format-spec-mutates-self', S, "        if format_spec:\n            # Make a copy\n            obj = self.copy()\n", "        if format_spec:\n            # Make a copy\n            obj = self.copy() if self._fmts else self\n"),
    ('getitem-slice-end-marker-lost', S, "                if settings.rem:\n                    new_s._fmts[idx - st] = _AnsiSettingPoint(rem=list(settings.rem))",
     "                if settings.rem and settings.add:\n                    new_s._fmts[idx - st] = _AnsiSettingPoint(rem=list(settings.rem))"),
    ('iadd-str-inherits-last-style', S, "        if isinstance(value, str):\n            value = AnsiString(value)\n\n        if isinstance(value, AnsiString):\n            incoming_str = value._s",
     "        if isinstance(value, str) and not isinstance(value, AnsiStr):\n            self.assign_str(self._s + value)\n            return self\n        if isinstance(value, str):\n            value = AnsiString(value)\n\n        if isinstance(value, AnsiString):\n            incoming_str = value._s"),
    ('join-skips-empty-first', S, "        for arg in args[1:]:\n            joint += arg\n        return joint", "        for arg in args[1:]:\n            if len(arg):\n                joint += arg\n        return joint"),
    ('remove-equal-compares-identity-of-text-prefix', S, "                    if ansi_settings is None or s in ansi_settings:\n                        add_idx",
     "                    if ansi_settings is None or any(str(s).startswith(str(x)) for x in ansi_settings):\n                        add_idx"),
    ('ansistr-payload-from-unoptimized', S, "        instance = super().__new__(cls, str(ansi_string))\n        instance._s = ansi_string\n        return instance",
     "        instance = super().__new__(cls, ansi_string.to_str(optimize=False))\n        instance._s = ansi_string\n        return instance"),
    ('ansistr-getitem-returns-ansistring', S, "        return AnsiStr(self._s.__getitem__(val))", "        return self._s.__getitem__(val)"),
    ('simplify-keeps-invalid-rem', S, "            point.rem = [x for x in point.rem if x.valid and re.search(r'^[0-9; ]*\\Z', str(x))]\n", ""),
    ('set-ansi-str-drops-trailing-char-settings', S, "                if key >= len(self._s):\n                    break", "                if key >= len(self._s) - 1:\n                    break"),
]


# reverts of fix: commits whose plain `git show -R` no longer applies (later fixes touched the same lines):
# (file name, [(path, old, new), ...])
R = [
    ('r03-revert-ae5ebc4-parse-graphic-sequence-no-longer-rewrite.patch',
     [(P, "        items = list(sequence)\n", "        items = sequence\n")]),
    ('r09-revert-92df313-apply-formatting-remove-formatting-clamp.patch',
     [(S, "        end = min(self._slice_val_to_idx(end, len(self._s)), len(self._s))\n\n        is_int = isinstance(settings, int) and not isinstance(settings, bool)\n        if not settings and not is_int:",
       "        end = self._slice_val_to_idx(end, len(self._s))\n\n        is_int = isinstance(settings, int) and not isinstance(settings, bool)\n        if not settings and not is_int:"),
      (S, "        end = min(self._slice_val_to_idx(end, len(self._s)), len(self._s))\n\n        is_int = isinstance(settings, int) and not isinstance(settings, bool)\n        if settings is not None",
       "        end = self._slice_val_to_idx(end, len(self._s))\n\n        is_int = isinstance(settings, int) and not isinstance(settings, bool)\n        if settings is not None")]),
    ('r23-revert-41c5d6f-remove-formatting-leaves-the-string-unto.patch',
     [(S, "        # Parse the settings before anything is modified since this raises an exception for invalid settings\n        if settings is None:\n            ansi_settings = None\n        else:\n            ansi_settings = _AnsiSettingPoint._scrub_ansi_settings(settings)\n\n        if start >= len(self._s) or end <= start:\n            # Ignore - empty range\n            return\n\n        if start not in self._fmts:\n            self._fmts[start] = _AnsiSettingPoint()\n\n        if end not in self._fmts:\n            self._fmts[end] = _AnsiSettingPoint()\n",
       "        if start >= len(self._s) or end <= start:\n            # Ignore - empty range\n            return\n\n        if start not in self._fmts:\n            self._fmts[start] = _AnsiSettingPoint()\n\n        if end not in self._fmts:\n            self._fmts[end] = _AnsiSettingPoint()\n\n        if settings is None:\n            ansi_settings = None\n        else:\n            ansi_settings = _AnsiSettingPoint._scrub_ansi_settings(settings)\n")]),
    ('r27-revert-f0913e7-format-spec-ansi-part-starting-with-digit.patch',
     [(S, "r'(^(?:.?[-\\+]?[<>\\^])?[0-9]*)(:.*)?\\Z'", "r'(^.?[-\\+]?[<>\\^]?[0-9]*)(:.*)?\\Z'")]),
    ('r30-revert-52e663a-the-integer-0-RESET-given-directly-as-th.patch',
     [(S, "        if not settings and not is_int:\n", "        if not settings:\n"),
      (S, "        if settings is not None and not settings and not is_int:\n", "        if settings is not None and not settings:\n"),
      (S, "        if settings is None:\n            ansi_settings = None\n        else:\n            ansi_settings = _AnsiSettingPoint._scrub_ansi_settings(settings)\n\n        if start >= len(self._s) or end <= start:\n            # Ignore - empty range",
       "        if not settings:\n            ansi_settings = None\n        else:\n            ansi_settings = _AnsiSettingPoint._scrub_ansi_settings(settings)\n\n        if start >= len(self._s) or end <= start:\n            # Ignore - empty range")]),
    ('r32-revert-a6f2f12-format-spec-accepts-a-newline-as-fill-ch.patch',
     [(S, "<)?([0-9]*)\\Z', string_format, re.DOTALL)", "<)?([0-9]*)$', string_format)"),
      (S, ">([0-9]*)\\Z', string_format, re.DOTALL)", ">([0-9]*)$', string_format)"),
      (S, "\\^([0-9]*)\\Z', string_format, re.DOTALL)", "\\^([0-9]*)$', string_format)"),
      (S, "(:.*)?\\Z', format_spec, re.DOTALL)", "(:.*)?$', format_spec)")]),
]


R.append(
    ('r39-revert-154d93a-a-control-sequence-ending-in-m-whose-par.patch',
     [('src/ansi_string/ansi_string.py', """        # Only a parameter string made of digits and separators is a graphic rendition. Anything else which ends with
        # "m" is a different control function (ex: the private sequence ESC[>4;2m) and stays in the text as it is.
        self._s = ''
        last_key = 0
        graphic_sequences:Dict[int,list] = {}
        for key, value_list in parsed_str.sequences.items():
            self._s += parsed_str.unformatted_str[last_key:key]
            last_key = key
            for value in value_list:
                if re.search(r'^[0-9; ]*\\Z', value.sequence):
                    graphic_sequences.setdefault(len(self._s), []).append(value)
                else:
                    self._s += ansi_control_sequence_introducer + value.sequence + value.terminator
        self._s += parsed_str.unformatted_str[last_key:]
        self._fmts = {}
        for key, value_list in graphic_sequences.items():
""", """        self._s = parsed_str.unformatted_str
        self._fmts = {}
        for key, value_list in parsed_str.sequences.items():
""")]))


def main():
    tmp = tempfile.mkdtemp(prefix='vf-mk-')
    n_ok = 0
    try:
        a = os.path.join(tmp, 'a')
        b = os.path.join(tmp, 'b')
        subprocess.check_call(['rsync', '-a', '--exclude', '.git', '--exclude', '__pycache__', REPO + '/src', a + '/'])
        for i, (name, path, old, new) in enumerate(M, 1):
            shutil.rmtree(b, ignore_errors=True)
            shutil.copytree(a, b)
            fp = os.path.join(b, path)
            s = open(fp).read()
            if s.count(old) != 1:
                print('SKIP %s: anchor found %d times' % (name, s.count(old)))
                continue
            open(fp, 'w').write(s.replace(old, new))
            d = subprocess.run(['diff', '-u', os.path.join('a', path), os.path.join('b', path)], cwd=tmp,
                               capture_output=True, text=True).stdout
            out = os.path.join(HERE, 'mutants', 'm%02d-%s.patch' % (i, name))
            open(out, 'w').write(d)
            n_ok += 1
        for fname, edits in R:
            shutil.rmtree(b, ignore_errors=True)
            shutil.copytree(a, b)
            ok = True
            for path, old, new in edits:
                fp = os.path.join(b, path)
                s = open(fp).read()
                if s.count(old) != 1:
                    print('SKIP %s: anchor found %d times: %r' % (fname, s.count(old), old[:50]))
                    ok = False
                    break
                open(fp, 'w').write(s.replace(old, new))
            if ok:
                d = subprocess.run(['diff', '-ruN', 'a/src', 'b/src'], cwd=tmp, capture_output=True, text=True).stdout
                open(os.path.join(HERE, 'mutants', fname), 'w').write(d)
                n_ok += 1
    finally:
        shutil.rmtree(tmp, ignore_errors=True)
    print('wrote %d mutant patches' % n_ok)


if __name__ == '__main__':
    sys.exit(main())
