#!/usr/bin/env python3
"""Confirms a sub-agent's seeded change independently and files it under /verif/seeded/<id>/.

For every /tmp/seed-out/Cxx/{A,B}.diff: on a scratch copy of /repo (outside /repo and /verif, removed afterwards)
  1. the patch applies and touches only src/,
  2. the repository's 306 tests pass with it,
  3. the demonstration exits non-zero with it,
  4. the demonstration exits 0 on the unmodified copy.
Only then is it kept as /verif/seeded/Cxx-A/{patch.diff, demo.py, meta.json}.
"""
import json
import os
import shutil
import subprocess
import sys
import tempfile

HERE = os.path.dirname(os.path.dirname(os.path.abspath(__file__)))
SRC = os.environ.get('SEED_SRC', '/tmp/seed-out')
# round two files its changes A/B as C/D
RENAME = dict(x.split(':') for x in os.environ.get('SEED_RENAME', 'A:A,B:B').split(','))
PY = '/venv/bin/python'


def sh(cmd, cwd=None, timeout=600):
    env = dict(os.environ)
    env.pop('ANSI_STRING_VERIF', None)
    env['PYTHONDONTWRITEBYTECODE'] = '1'
    try:
        p = subprocess.run(cmd, cwd=cwd, capture_output=True, text=True, timeout=timeout, env=env)
        return p.returncode, (p.stdout + p.stderr)
    except subprocess.TimeoutExpired:
        return 124, 'timeout'


def main():
    only = sys.argv[1:] or None
    rnd = os.environ.get('SEED_ROUND') or (
        'second round (asked for rarer triggers; told what round one had done)' if RENAME.get('A') != 'A' else 'first round')
    kept = []
    for prop in sorted(os.listdir(SRC)):
        d = os.path.join(SRC, prop)
        if only and prop not in only:
            continue
        meta_all = {}
        if os.path.exists(os.path.join(d, 'meta.json')):
            try:
                meta_all = json.load(open(os.path.join(d, 'meta.json')))
            except Exception:
                meta_all = {}
        for v in ('A', 'B'):
            diff = os.path.join(d, v + '.diff')
            demo = os.path.join(d, 'demo_%s.py' % v)
            if not (os.path.exists(diff) and os.path.exists(demo)):
                print('%s-%s: missing files' % (prop, v))
                continue
            tmp = tempfile.mkdtemp(prefix='vf-seed-')
            try:
                clean = os.path.join(tmp, 'clean')
                mut = os.path.join(tmp, 'mut')
                for t in (clean, mut):
                    subprocess.check_call(['rsync', '-a', '--exclude', '.git', '--exclude', '__pycache__', '/repo/', t + '/'])
                rc, out = sh(['git', 'apply', '--whitespace=nowarn', diff], cwd=mut)
                if rc != 0:
                    print('%s-%s: patch does not apply: %s' % (prop, v, out[-300:]))
                    continue
                files = [l[6:].strip() for l in open(diff) if l.startswith('+++ b/')]
                if not files or not all(f.startswith('src/') for f in files):
                    print('%s-%s: touches %s' % (prop, v, files))
                    continue
                rc_t, out_t = sh([PY, '-m', 'pytest', '-q', '-p', 'no:cacheprovider', '--timeout=600'], cwd=mut)
                tests_line = out_t.strip().splitlines()[-1] if out_t.strip() else ''
                rc_m, out_m = sh([PY, demo, mut], cwd=tmp, timeout=300)
                rc_c, out_c = sh([PY, demo, clean], cwd=tmp, timeout=300)
                ok = rc_t == 0 and rc_m != 0 and rc_c == 0
                print('%s-%s: tests=%s (%s) demo_with=%d demo_without=%d -> %s' % (
                    prop, v, 'pass' if rc_t == 0 else 'FAIL', tests_line[-40:], rc_m, rc_c, 'KEEP' if ok else 'REJECT'))
                if not ok:
                    continue
                dst = os.path.join(HERE, 'seeded', '%s-%s' % (prop, RENAME[v]))
                os.makedirs(dst, exist_ok=True)
                shutil.copy(diff, os.path.join(dst, 'patch.diff'))
                shutil.copy(demo, os.path.join(dst, 'demo.py'))
                m = meta_all.get(v, {}) if isinstance(meta_all, dict) else {}
                meta = {
                    'id': '%s-%s' % (prop, RENAME[v]),
                    'breaks_property': (meta_all.get(v, {}) or {}).get('property') or prop,
                    'summary': m.get('summary'),
                    'needs_to_manifest': m.get('needs') or m.get('needs_to_manifest'),
                    'files': files,
                    'origin': 'independent sub-agent given only the property text and a scratch worktree of /repo; ' + rnd,
                    'confirmed': {
                        'how': 'tools/ingest_seeded.py on scratch copies of /repo (rsync, removed afterwards)',
                        'tests_with_change': tests_line,
                        'demo_exit_with_change': rc_m,
                        'demo_exit_without_change': rc_c,
                        'demo_output_with_change_tail': out_m[-600:],
                    },
                }
                json.dump(meta, open(os.path.join(dst, 'meta.json'), 'w'), indent=1)
                kept.append(meta['id'])
            finally:
                shutil.rmtree(tmp, ignore_errors=True)
    print('kept %d: %s' % (len(kept), kept))


if __name__ == '__main__':
    main()
