#!/bin/sh
# runs the repository's pinned test suite (guard off) and prints the summary line
cd /repo && env -u ANSI_STRING_VERIF /venv/bin/python -m pytest -q -p no:cacheprovider --timeout=900 --continue-on-collection-errors 2>&1 | tail -3
