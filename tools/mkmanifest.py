#!/usr/bin/env python3
"""Regenerates /verif/MANIFEST.json from the property modules that exist."""
import json
import os
import sys

HERE = os.path.dirname(os.path.dirname(os.path.abspath(__file__)))
sys.path.insert(0, HERE)

TITLES = {}
for line in open(os.path.join(HERE, 'properties.jsonl')):
    p = json.loads(line)
    TITLES[p['id']] = p['title']

TECH = {
    'C01': 'runtime contract on to_str/__str__/__format__ + reference SGR terminal emulator over seeded histories + bounded-exhaustive operation tree (every history of <= 2-4 apply/remove operations) as workload',
    'C02': 'runtime contract on constructors/set_ansi_str + reference tokenizer and SGR terminal (differential)',
    'C03': 'runtime contract on simplify + driven render/re-parse probe judged by the SGR terminal model + bounded-exhaustive operation tree (every history of <= 2-4 apply/remove operations) as workload',
    'C04': 'runtime contract on __getitem__/clip/iteration: per-character shadow comparison + closure probes + bounded-exhaustive operation tree (every history of <= 2-4 apply/remove operations) as workload',
    'C05': 'runtime contract on __add__/__iadd__/join: per-character shadow comparison, fold model, split-rejoin probe + bounded-exhaustive operation tree (every history of <= 2-4 apply/remove operations) as workload',
    'C06': 'runtime contract on apply_formatting: pre/post shadow comparison + display rules via SGR model + bounded-exhaustive operation tree (every history of <= 2-4 apply/remove operations) as workload',
    'C07': 'runtime contract on remove_formatting/clear_formatting: pre/post shadow comparison + bounded-exhaustive operation tree (every history of <= 2-4 apply/remove operations) as workload',
    'C08': 'universal runtime contract (pre/post observation of receiver and arguments) + mutation/aliasing probes + bounded-exhaustive operation tree (every history of <= 2-4 apply/remove operations) as workload',
    'C09': 'step-budget monitor (sys.monitoring LINE counts), exception-type contract, post-raise state check, health probes + bounded-exhaustive operation tree (every history of <= 2-4 apply/remove operations) as workload',
    'C10': 'differential runtime contract against Python str on the base text',
    'C11': 'runtime contract with independent offset scanner cross-checked against str; per-character shadow comparison + bounded-exhaustive operation tree (every history of <= 2-4 apply/remove operations) as workload',
    'C12': 'runtime contract on padding/format: str/format() text reference + per-character shadow + SGR display model + bounded-exhaustive operation tree (every history of <= 2-4 apply/remove operations) as workload',
    'C13': 'twin-execution monitor AnsiStr vs AnsiString + payload==rendering contract on every AnsiStr leaving the API',
    'C14': 'differential monitor over enumerated spellings (all AnsiFormat members exhaustively) + rejection contracts',
    'C15': 'runtime contract on AnsiSetting.valid/parsable vs grammar oracle + render well-formedness monitor',
    'C16': 'runtime contract: post-state vs explicit re.finditer fold of apply/remove on a copy + bounded-exhaustive operation tree (every history of <= 2-4 apply/remove operations) as workload',
    'C17': 'runtime contract on settings queries vs per-character table + bounded-exhaustive operation tree (every history of <= 2-4 apply/remove operations) as workload',
    'C18': 'differential monitor of parse_graphic_sequence/settings_to_dict against the SGR terminal model',
    'C19': 'runtime contract on ParsedAnsiControlSequenceString vs reference tokenizer; helper-output grammar check',
}


def main():
    checks = []
    na = []
    for pid in sorted(TITLES):
        path = os.path.join(HERE, 'vf', 'props', pid.lower() + '.py')
        if not os.path.exists(path):
            na.append({'property_id': pid, 'reason': 'monitor not built yet in this session (planned, see DESIGN.md section 4)'})
            continue
        src = open(path).read()
        checks.append({
            'property_id': pid,
            'quick_cmd': './check %s quick' % pid,
            'thorough_cmd': './check %s thorough' % pid,
            'evidence_file': 'evidence/%s.json' % pid,
            'replay_cmd_template': './check %s --replay {path}' % pid,
            'engine': 'vf',
            'level_claimed': {
                'category': 'exploration',
                'text': ('Held on the monitored executions of this run only: every outermost call of the anchored '
                         'operations made by seeded hostile histories is judged by an oracle independent of the input '
                         '(%s). Not a proof; bounds and grey domain are in DESIGN.md.' % TECH[pid]),
                'design_ref': 'DESIGN.md section 4 (%s), sections 1-3' % pid,
            },
            'level_note': ('Trusted: CPython 3.12 str/re/format/slice.indices, the SGR effect-group model (DESIGN 2.1), '
                           'base_str/ansi_settings_at as observation channel. Text length, history length and widths '
                           'are bounded (DESIGN 3).'),
            'technique': 'runtime monitoring: ' + TECH[pid],
        })
    man = {
        'version': 1,
        'setup_cmd': '/venv/bin/python -m compileall -q vf >/dev/null; ./check selftest',
        'hooks': {
            'guard': 'ANSI_STRING_VERIF',
            'enable': 'no source hooks are needed: monitors are installed at run time by wrapping the public methods '
                      '(vf/monitor.py); the guard variable is set by the runner but unused by the repository',
            'baseline_off_cmd': 'cd /repo && /venv/bin/python -m pytest -ra -q -p no:cacheprovider --timeout=900 '
                                '--continue-on-collection-errors',
            'source_commits': [],
            'add_only': True,
        },
        'engines': [{'name': 'vf', 'path': 'vf', 'serves_properties': [c['property_id'] for c in checks],
                     'kind_free_text': 'runtime monitor layer (boundary wrappers + contracts), reference SGR terminal, '
                                       'shadow observation, seeded history generator, step-budget monitor'}],
        'checks': checks,
        'not_applicable': na,
        'notes': 'All checks import ansi_string from $VERIF_REPO/src (default /repo/src) at run time; nothing is built.',
    }
    with open(os.path.join(HERE, 'MANIFEST.json'), 'w') as f:
        json.dump(man, f, indent=1)
    print('wrote MANIFEST.json: %d checks, %d not_applicable' % (len(checks), len(na)))


if __name__ == '__main__':
    main()
