#!/usr/bin/env python3
"""Renders the sensitivity results into DESIGN.md (section 9)."""
import json
import os
import re

HERE = os.path.dirname(os.path.dirname(os.path.abspath(__file__)))


def load(name):
    p = os.path.join(HERE, name, 'RESULTS.quick.json')
    return json.load(open(p)) if os.path.exists(p) else []


def main():
    out = []
    # (results of patches that were superseded / renamed since are not listed)
    seeded = [r for r in load('seeded') if os.path.exists(os.path.join(HERE, 'seeded', r['mutant'], 'patch.diff'))]
    out.append('### 9.1 Seeded changes from independent sub-agents (%d)\n' % len(seeded))
    out.append('| id | what it does / what it needs to manifest | tests | caught by (mechanism labels) | own |')
    out.append('|---|---|---|---|---|')
    n_own = n_caught = 0
    for r in seeded:
        meta = {}
        mp = os.path.join(HERE, 'seeded', r['mutant'], 'meta.json')
        if os.path.exists(mp):
            meta = json.load(open(mp))
        prop = (meta.get('breaks_property') or r['mutant'].split('-')[0]).split()[0].strip(',;')
        fired = r.get('fired', {})
        own = prop in fired
        n_own += own
        n_caught += bool(fired)
        summ = (meta.get('summary') or '')[:230].replace('|', '/').replace('\n', ' ')
        need = (meta.get('needs_to_manifest') or '')[:200].replace('|', '/').replace('\n', ' ')
        fz = '; '.join('%s[%s]' % (k, ','.join(v['mechanisms'][:2])) for k, v in sorted(fired.items())) or '**missed**'
        out.append('| %s | %s *Needs:* %s | %s | %s | %s |' % (r['mutant'], summ, need, 'pass' if r.get('tests_pass') else 'fail',
                                                             fz, 'yes' if own else 'no'))
    out.append('\n%d of %d caught by at least one check, %d by the check of the property they were written against.\n' % (
        n_caught, len(seeded), n_own))
    mut = [r for r in load('mutants') if os.path.exists(os.path.join(HERE, 'mutants', r['mutant']))]
    out.append('### 9.2 Mutant corpus (%d)\n' % len(mut))
    out.append('| mutant | repo tests | caught by |')
    out.append('|---|---|---|')
    missed = []
    for r in mut:
        fired = r.get('fired', {})
        fz = ' '.join(sorted(fired)) or '**missed**'
        if not fired:
            missed.append(r['mutant'])
        out.append('| %s | %s | %s |' % (r['mutant'].replace('.patch', ''), 'pass' if r.get('tests_pass') else 'FAIL', fz))
    out.append('\n%d of %d caught; missed: %s\n' % (len(mut) - len(missed), len(mut), ', '.join(m.replace('.patch', '') for m in missed) or 'none'))
    text = '\n'.join(out)
    p = os.path.join(HERE, 'DESIGN.md')
    s = open(p).read()
    s = re.sub(r'<!-- CATCHES:BEGIN -->.*?<!-- CATCHES:END -->', lambda m: '<!-- CATCHES:BEGIN -->\n' + text + '\n<!-- CATCHES:END -->', s, flags=re.S)
    open(p, 'w').write(s)
    print('section 9 updated: %d seeded, %d mutants' % (len(seeded), len(mut)))


if __name__ == '__main__':
    main()
