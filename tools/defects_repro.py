#!/venv/bin/python
"""Minimal reproductions of the genuine defects found by the monitors (DESIGN section 5).

Each function returns None when the behaviour is correct and a description of
what is wrong otherwise.  Usage: tools/defects_repro.py [repo]  (default /repo)
Exit status = number of defects still present.
"""
import os
import signal
import sys

repo = sys.argv[1] if len(sys.argv) > 1 else os.environ.get('VERIF_REPO', '/repo')
sys.path.insert(0, os.path.join(repo, 'src'))
import ansi_string  # noqa: E402
from ansi_string import AnsiString, AnsiStr, AnsiFormat, ParsedAnsiControlSequenceString, parse_graphic_sequence  # noqa

assert ansi_string.__file__.startswith(repo), ansi_string.__file__
AnsiString.WITH_ASSERTIONS = True


def at(s, i):
    return s.settings_at(i)


def D1():
    out = AnsiString('abc', 'no_bold_faint').to_str(reset_start=True)
    if not out.startswith('\x1b[0') and not out.startswith('\x1b[m'):
        return 'reset_start=True emitted no reset: %r' % out


def D2():
    got = [str(x) for x in parse_graphic_sequence('1;38;5;214')]
    if got != ['1', '38;5;214']:
        return "parse_graphic_sequence('1;38;5;214') -> %r" % got


def D3():
    l = ['31']
    parse_graphic_sequence(l)
    if l != ['31']:
        return 'argument list rewritten to %r' % l


def D4():
    s = AnsiString('abc', 'red')
    if at(s[-1], 0) != '31':
        return "AnsiString('abc','red')[-1] reports %r" % at(s[-1], 0)


def D5():
    s = AnsiString('abcdef')
    s.apply_formatting('red', 1, 5)
    s.apply_formatting('bold', 2, 4)
    p = s[1:5]
    p.remove_formatting('bold', 1, 3)   # mutate the slice
    if [at(s, i) for i in range(6)] != ['', '31', '31;1', '31;1', '31', '']:
        return 'mutating a slice changed its source: %r' % [at(s, i) for i in range(6)]


def D6():
    s = AnsiString('abcd')
    s.apply_formatting('red', 0, 4)
    s.apply_formatting('red', 0, 2)
    r = s[0:2] + 'Z'
    if at(r, 2) != '':
        return 'style left open after slice: appended char reports %r' % at(r, 2)


def D7():
    a = AnsiString('a', 'red')
    b = AnsiString('b', 'red')
    a + b
    if at(b, 0) != '31':
        return 'a + b stripped the right operand: b reports %r' % at(b, 0)


def D8():
    s = AnsiString('abc')
    s.apply_formatting('red', 0, 10)
    r = s + 'x'
    if at(r, 3) != '':
        return 'apply_formatting(end>len) bleeds into appended text: %r' % at(r, 3)


def D9():
    s = AnsiString('abcde')
    s.apply_formatting('red', 0, 4)
    s.apply_formatting('blue', 1, 4)
    s.apply_formatting('bold', 1, 3, topmost=False)
    if at(s, 1) not in ('1;31;34', '31;1;34'):
        return 'topmost=False reordered existing settings: %r' % at(s, 1)


def D9b():
    s = AnsiString('abc')
    s.apply_formatting('no_bold_faint', 0, 3)
    s.apply_formatting('bold', 0, 3)          # bold over "no bold": displays bold
    s.apply_formatting('bold', 1, 3, topmost=False)
    # char 1: existing [22, 1]; new bold goes underneath -> must still end ... ,22,1
    if not at(s, 1).endswith('22;1'):
        return 'topmost=False changed the effective boldness: %r' % at(s, 1)


def D10():
    s = AnsiString('abcdefgh')
    s.apply_formatting('red', 1, 6)
    s.apply_formatting('blue', 1, 6)
    s.remove_formatting(None, 0, 3)
    if at(s, 4) != '31;34':
        return 'remove_formatting flipped precedence after the range: %r' % at(s, 4)


def D11():
    r = AnsiString('ab', 'red').center(6) + 'x'
    if at(r, 6) != '':
        return "center() leaves the end marker beyond the text: appended char reports %r" % at(r, 6)


def D12():
    s = AnsiString('xabbbb')
    s.apply_formatting('red', 2, 3)
    p = s.split('ab')
    if [at(p[1], i) for i in range(3)] != ['', '', '']:
        return "split piece takes the wrong offset: %r" % [at(p[1], i) for i in range(3)]


def D13():
    def h(*a):
        raise TimeoutError
    signal.signal(signal.SIGALRM, h)
    signal.alarm(3)
    try:
        r = AnsiString('ab').replace('', 'x')
    except TimeoutError:
        return "replace('', 'x') does not terminate"
    finally:
        signal.alarm(0)
    if r.base_str != 'ab'.replace('', 'x'):
        return "replace('', 'x') -> %r" % r.base_str


def D14():
    r = AnsiString('abc').removesuffix('')
    if r.base_str != 'abc':
        return "removesuffix('') -> %r" % r.base_str


def D15():
    a = AnsiStr(AnsiString('a'), 'bold')
    b = AnsiStr(AnsiStr('a'), 'bold')
    if at(a, 0) != '1' or at(b, 0) != '1':
        return 'AnsiStr(<ansi value>, settings) dropped the settings: %r %r' % (at(a, 0), at(b, 0))


def D16():
    s = '\x1b[1mab\x1b[0mc'
    p = ParsedAnsiControlSequenceString(s)
    if p.formatted_str != s:
        return 'formatted_str %r != input %r' % (p.formatted_str, s)
    try:
        if str(p) != s or repr(p) != s:
            return 'str()/repr() differ from the input'
    except TypeError as e:
        return 'str()/repr() raise %r' % e


def D17():
    s = AnsiString('a\x1b[1') + 'mb'
    if s[0:6].base_str != s.base_str[0:6]:
        return 'slice re-parses its text: %r' % s[0:6].base_str


def main():
    n = 0
    for name, fn in sorted(globals().items(), key=lambda kv: (len(kv[0]), kv[0])):
        if name[0] == 'D' and name[1:2].isdigit():
            try:
                r = fn()
            except Exception as e:
                r = 'raised %r' % e
            print('%-4s %s' % (name, 'ok' if r is None else 'DEFECT: ' + r))
            n += r is not None
    return n


if __name__ == '__main__':
    sys.exit(main())
