#!/usr/bin/env python3
"""Files behaviour-preserving changes written by sub-agents (/tmp/benign-out/<Bk>/{A,B,C}.diff + meta.json) under
/verif/benign/<Bk>-<X>/ after confirming on a scratch copy that the patch applies, touches only src/ and the
repository's 306 tests pass with it.  Whether it really preserves the properties is what tools/mutants.py --benign
then asks the checks; a check that fires is triaged by hand (false alarm of mine, or a change that is not benign)."""
import json
import os
import shutil
import subprocess
import sys
import tempfile

HERE = os.path.dirname(os.path.dirname(os.path.abspath(__file__)))
SRC = os.environ.get('BENIGN_SRC', '/tmp/benign-out')
PY = '/venv/bin/python'


def sh(cmd, cwd=None, timeout=900):
    env = dict(os.environ)
    env['PYTHONDONTWRITEBYTECODE'] = '1'
    p = subprocess.run(cmd, cwd=cwd, capture_output=True, text=True, timeout=timeout, env=env)
    return p.returncode, p.stdout + p.stderr


def main():
    kept = []
    for b in sorted(os.listdir(SRC)):
        d = os.path.join(SRC, b)
        try:
            meta_all = json.load(open(os.path.join(d, 'meta.json')))
        except Exception:
            meta_all = {}
        for v in ('A', 'B', 'C'):
            diff = os.path.join(d, v + '.diff')
            if not os.path.exists(diff):
                continue
            tmp = tempfile.mkdtemp(prefix='vf-benign-')
            try:
                subprocess.check_call(['rsync', '-a', '--exclude', '.git', '--exclude', '__pycache__', '/repo/', tmp + '/'])
                rc, out = sh(['git', 'apply', '--whitespace=nowarn', diff], cwd=tmp)
                files = [l[6:].strip() for l in open(diff) if l.startswith('+++ b/')]
                if rc != 0 or not files or not all(f.startswith('src/') for f in files):
                    print('%s-%s: does not apply / touches %s' % (b, v, files))
                    continue
                rc_t, out_t = sh([PY, '-m', 'pytest', '-q', '-p', 'no:cacheprovider', '--timeout=600'], cwd=tmp)
                line = out_t.strip().splitlines()[-1] if out_t.strip() else ''
                print('%s-%s: tests %s' % (b, v, line))
                if rc_t != 0:
                    continue
                dst = os.path.join(HERE, 'benign', '%s-%s' % (b, v))
                os.makedirs(dst, exist_ok=True)
                shutil.copy(diff, os.path.join(dst, 'patch.diff'))
                m = dict(meta_all.get(v, {}) if isinstance(meta_all, dict) else {})
                m.update({'id': '%s-%s' % (b, v), 'files': files, 'tests_with_change': line,
                          'origin': 'independent sub-agent given only the 19 property statements and a scratch worktree; '
                                    'asked for a behaviour-preserving internal rewrite'})
                json.dump(m, open(os.path.join(dst, 'meta.json'), 'w'), indent=1)
                kept.append(m['id'])
            finally:
                shutil.rmtree(tmp, ignore_errors=True)
    print('kept %d: %s' % (len(kept), kept))


if __name__ == '__main__':
    sys.exit(main())
