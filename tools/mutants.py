#!/usr/bin/env python3
"""Sensitivity self-test: applies each patch of /verif/mutants (and /verif/seeded/*/patch.diff) to a scratch copy
of the repository (outside /repo and /verif, removed afterwards), verifies that the copy still passes the
repository's own test-suite, and runs the property checks against it (VERIF_REPO).  Prints which checks fire.

usage: tools/mutants.py [--tier quick|thorough] [--only substr] [--props C01,C05] [--jobs N] [--seeded]
Writes /verif/mutants/RESULTS.json (a report, not evidence).
"""
import concurrent.futures as cf
import glob
import json
import os
import re
import shutil
import subprocess
import sys
import tempfile

HERE = os.path.dirname(os.path.dirname(os.path.abspath(__file__)))
REPO = os.environ.get('VERIF_REPO_BASE', '/repo')
PY = '/venv/bin/python'
ALL = ['C%02d' % i for i in range(1, 20)]


def run_one(patch, tier, props):
    name = os.path.basename(os.path.dirname(patch)) if patch.endswith('patch.diff') else os.path.basename(patch)
    tmp = tempfile.mkdtemp(prefix='vf-mut-')
    res = {'mutant': name, 'patch': patch}
    try:
        dst = os.path.join(tmp, 'repo')
        subprocess.check_call(['rsync', '-a', '--exclude', '.git', '--exclude', '__pycache__', REPO + '/', dst + '/'])
        p = subprocess.run(['git', 'apply', '--whitespace=nowarn', patch], cwd=dst, capture_output=True, text=True)
        if p.returncode != 0:
            res['error'] = 'patch does not apply: ' + p.stderr[-400:]
            return res
        env = dict(os.environ)
        env.pop('ANSI_STRING_VERIF', None)
        env['PYTHONDONTWRITEBYTECODE'] = '1'
        t = subprocess.run([PY, '-m', 'pytest', '-q', '-p', 'no:cacheprovider', '-x', '--timeout=300'], cwd=dst,
                           capture_output=True, text=True, env=env)
        last = t.stdout.strip().splitlines()[-1] if t.stdout.strip() else ''
        res['tests'] = last
        res['tests_pass'] = (t.returncode == 0)
        fired = {}
        env2 = dict(os.environ)
        env2['VERIF_REPO'] = dst
        env2['VERIF_NO_EVIDENCE'] = '1'
        for prop in props:
            c = subprocess.run([os.path.join(HERE, 'check'), prop, tier], cwd=HERE, capture_output=True, text=True, env=env2)
            out = c.stdout
            m = re.search(r'(\d+) evaluations.* (\d+) violations', out)
            mechs = sorted(set(re.findall(r'mechanism=(\S+)', out)))
            fired[prop] = {'exit': c.returncode, 'violations': int(m.group(2)) if m else None, 'mechanisms': mechs[:6]}
        res['fired'] = {k: v for k, v in fired.items() if v['exit'] == 1}
        res['inconclusive'] = [k for k, v in fired.items() if v['exit'] not in (0, 1)]
        res['caught'] = bool(res['fired'])
        return res
    finally:
        shutil.rmtree(tmp, ignore_errors=True)


def main():
    args = sys.argv[1:]
    tier = 'quick'
    only = None
    props = ALL
    jobs = 4
    seeded = False
    while args:
        a = args.pop(0)
        if a == '--tier':
            tier = args.pop(0)
        elif a == '--only':
            only = args.pop(0)
        elif a == '--props':
            props = args.pop(0).split(',')
        elif a == '--jobs':
            jobs = int(args.pop(0))
        elif a == '--seeded':
            seeded = True
        elif a == '--benign':
            # behaviour-preserving changes (benign/<id>/patch.diff): here a firing check is a FALSE ALARM
            seeded = 'benign'
    patches = sorted(glob.glob(os.path.join(HERE, 'mutants', '*.patch')))
    if seeded:
        patches = sorted(glob.glob(os.path.join(HERE, 'benign' if seeded == 'benign' else 'seeded', '*', 'patch.diff')))
    if only:
        patches = [p for p in patches if only in p]
    results = []
    with cf.ThreadPoolExecutor(jobs) as ex:
        for r in ex.map(lambda p: run_one(p, tier, props), patches):
            results.append(r)
            if 'error' in r:
                print('%-52s ERROR %s' % (r['mutant'], r['error']))
                continue
            f = ' '.join('%s[%s]' % (k, ','.join(v['mechanisms'][:2])) for k, v in r['fired'].items())
            print('%-52s tests:%s  %s %s' % (r['mutant'], 'pass' if r['tests_pass'] else 'FAIL(' + r['tests'][:40] + ')',
                                            'CAUGHT by ' + f if r['caught'] else 'MISSED',
                                            ('inconclusive:' + ','.join(r['inconclusive'])) if r['inconclusive'] else ''))
            sys.stdout.flush()
    out = os.path.join(HERE, ('benign' if seeded == 'benign' else 'seeded') if seeded else 'mutants', 'RESULTS.%s.json' % tier)
    merged = {}
    if os.path.exists(out) and (only or props != ALL):
        for r in json.load(open(out)):
            merged[r['mutant']] = r
    for r in results:
        old = merged.get(r['mutant'])
        if old and props != ALL and 'fired' in old and 'fired' in r:
            # partial re-run: update only the properties that were run
            old['fired'] = {k: v for k, v in old['fired'].items() if k not in props}
            old['fired'].update(r['fired'])
            old['inconclusive'] = sorted((set(old.get('inconclusive', [])) - set(props)) | set(r['inconclusive']))
            old['caught'] = bool(old['fired'])
            old['tests'] = r['tests']
            old['tests_pass'] = r['tests_pass']
        else:
            merged[r['mutant']] = r
    with open(out, 'w') as f:
        json.dump([merged[k] for k in sorted(merged)], f, indent=1)
    missed = [r['mutant'] for r in results if not r.get('caught') and 'error' not in r]
    if seeded == 'benign':
        print('%d behaviour-preserving changes, silent on %d, ALARM on: %s' % (
            len(results), len(missed), [r['mutant'] for r in results if r.get('caught')]))
        return
    print('%d mutants, %d caught, missed: %s' % (len(results), len(results) - len(missed), missed))


if __name__ == '__main__':
    main()
