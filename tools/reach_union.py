#!/usr/bin/env python3
"""Library lines (function bodies) that no check's workload ever executed, from evidence/*.json
(coverage.library_lines_reached, written by every run).  Reach evidence only: a line executed is not a line judged."""
import glob
import json
import os
import sys

HERE = os.path.dirname(os.path.dirname(os.path.abspath(__file__)))
REPO = os.environ.get('VERIF_REPO', '/repo')


def expand(ranges):
    s = set()
    for r in ranges:
        a, _, b = r.partition('-')
        s.update(range(int(a), int(b or a) + 1))
    return s


def main():
    never = {}
    n_exec = {}
    for p in sorted(glob.glob(os.path.join(HERE, 'evidence', 'C*.json'))):
        cov = json.load(open(p))['coverage'].get('library_lines_reached')
        if not cov:
            print('no reach data in', p)
            continue
        for f, d in cov.items():
            miss = expand(d['never_executed'])
            never[f] = miss if f not in never else never[f] & miss
            n_exec[f] = d['executable']
    for f in sorted(never):
        src = open(os.path.join(REPO, 'src', 'ansi_string', f)).read().split('\n')
        print('%s: %d of %d executable lines never executed by any check' % (f, len(never[f]), n_exec[f]))
        if '-v' in sys.argv:
            for ln in sorted(never[f]):
                print('   %5d  %s' % (ln, src[ln - 1].rstrip()[:150]))


if __name__ == '__main__':
    main()
