#!/usr/bin/env python3
"""Re-creates seeded patches that no longer apply to /repo's current tree (after later fix: commits touched
neighbouring lines): applies them with `patch --fuzz=3` on a scratch copy, and keeps the regenerated diff only if
the repository's tests pass with it and the demonstration still fails with it and passes without it."""
import glob
import json
import os
import shutil
import subprocess
import sys
import tempfile

HERE = os.path.dirname(os.path.dirname(os.path.abspath(__file__)))
PY = '/venv/bin/python'


def sh(cmd, cwd=None, timeout=600):
    env = dict(os.environ)
    env.pop('ANSI_STRING_VERIF', None)
    env['PYTHONDONTWRITEBYTECODE'] = '1'
    p = subprocess.run(cmd, cwd=cwd, capture_output=True, text=True, timeout=timeout, env=env)
    return p.returncode, p.stdout + p.stderr


def main():
    failed = []
    for d in sorted(glob.glob(os.path.join(HERE, 'seeded', '*'))):
        patch = os.path.join(d, 'patch.diff')
        if not os.path.exists(patch):
            continue
        rc, _ = sh(['git', '-C', '/repo', 'apply', '--check', patch])
        if rc == 0:
            continue
        name = os.path.basename(d)
        tmp = tempfile.mkdtemp(prefix='vf-rebase-')
        try:
            a, b = os.path.join(tmp, 'a'), os.path.join(tmp, 'b')
            for t in (a, b):
                subprocess.check_call(['rsync', '-a', '--exclude', '.git', '--exclude', '__pycache__', '/repo/', t + '/'])
            rc, out = sh(['patch', '-p1', '--fuzz=3', '--no-backup-if-mismatch', '-i', patch], cwd=b)
            if rc != 0 or glob.glob(os.path.join(b, 'src', '**', '*.rej'), recursive=True):
                print('%s: patch --fuzz failed: %s' % (name, out.strip().splitlines()[-1] if out.strip() else ''))
                failed.append(name)
                continue
            for f in glob.glob(os.path.join(b, 'src', '**', '*.orig'), recursive=True):
                os.remove(f)
            rc, diff = sh(['diff', '-ruN', 'a/src', 'b/src'], cwd=tmp)
            rc_t, out_t = sh([PY, '-m', 'pytest', '-q', '-p', 'no:cacheprovider', '--timeout=600'], cwd=b)
            rc_m, _ = sh([PY, os.path.join(d, 'demo.py'), b], cwd=tmp, timeout=300)
            rc_c, _ = sh([PY, os.path.join(d, 'demo.py'), a], cwd=tmp, timeout=300)
            ok = rc_t == 0 and rc_m != 0 and rc_c == 0
            print('%s: fuzz-applied; tests=%s demo_with=%d demo_without=%d -> %s' % (
                name, 'pass' if rc_t == 0 else 'FAIL', rc_m, rc_c, 'REBASED' if ok else 'NEEDS MANUAL WORK'))
            if not ok:
                failed.append(name)
                continue
            open(patch, 'w').write(diff)
            mp = os.path.join(d, 'meta.json')
            m = json.load(open(mp))
            m['rebased'] = ('patch re-created with `patch --fuzz=3` on the current /repo tree after later fix: commits '
                            'changed neighbouring lines (same change; 306 tests pass with it, demonstration fails with it '
                            'and passes without it, re-confirmed on scratch copies by tools/rebase_seeded.py)')
            json.dump(m, open(mp, 'w'), indent=1)
        finally:
            shutil.rmtree(tmp, ignore_errors=True)
    print('needs manual work:', failed)


if __name__ == '__main__':
    sys.exit(main())
