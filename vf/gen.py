"""Seeded workload generators and the small serialisable op language.

An *op* is a JSON-able dict; `Exec.run(op)` executes it on the real API.  The
generators create ops from the current pool (so bounds can be aimed at change
points), execute them through the same function that replays a transcript, and
append them to ctx.history - so a witness history replays exactly.
"""
import re

from . import obs as O
from .monitor import StepBudgetExceeded

ESC = '\x1b'

# --------------------------------------------------------------------------
# texts
# --------------------------------------------------------------------------
ALPHABETS = [
    'ab', 'aab-', 'ab ', 'a b\t', 'abc:', 'xab', 'aA', 'Ab c', ' \t\n', 'a\n\r', 'ab\n',
    '01-+', '0a', 'ab\x0b\x0c', 'a\x1c\x85 ', 'aß', 'İa', 'ǆa', 'aé', 'ab.', 'a(b',
    '\u039f\u0394\u03a3', 'a\u03a3\u03c3 ', '\u03a3\u03c2', 's\u017f', 'a\xa0 ', 'b\u2003\u3000 ', '\u0131iI', '\xb5\u03bc',
]
# complete literal SGR / CSI sequences: they can only get into a base text through assign_str or a concatenation
# seam (the constructor parses them out), which is exactly where re-parsing slips hide
RAW_SEQS = ['\x1b[1m', '\x1b[31m', '\x1b[m', '\x1b[0;4m', '\x1b[38;5;9m', '\x1b[2J', '\x1b[', '\x1b']
README_TEXTS = ['This string will be formatted bold and red', 'Hello World!', 'manipulated',
                'This string is red', 'Lots of text here', 'a,b,c', 'Title Case Here']


def gen_text(rng, maxlen=12, allow_empty=True, esc=False):
    r = rng.random()
    if r < 0.04 and allow_empty:
        return ''
    if r < 0.08:
        t = rng.choice(README_TEXTS)
        return t[:max(1, maxlen)]
    alpha = rng.choice(ALPHABETS)
    if esc and rng.random() < 0.5:
        alpha = alpha + ESC + '[m1'
    n = rng.randint(0 if allow_empty else 1, maxlen)
    if rng.random() < 0.5:
        n = min(n, 6)
    t = ''.join(rng.choice(alpha) for _ in range(n))
    if esc and rng.random() < 0.5:
        k = rng.randint(0, len(t))
        t = t[:k] + rng.choice(RAW_SEQS) + t[k:]
    return t


# --------------------------------------------------------------------------
# settings
# --------------------------------------------------------------------------
FAMILIES = {
    'boldness': ['bold', 'faint', 'no_bold_faint', 1, 2, 22, {'F': 'BOLD'}, {'F': 'FAINT'}, 'BOLD', '1'],
    'fg': ['red', 'blue', 'fg_default', 31, 34, 39, 'rgb(1,2,3)', {'rgb': [10, 20, 30], 'c': 'fg'},
           {'c256': 214, 'c': 'fg'}, 'bright_red', 'orange', {'F': 'FG_RED'}, {'F': 'FG_ORANGE'},
           'color256(7)', '38;5;9', {'S': '38;2;1;2;3'}, 97],
    'bg': ['bg_red', 'bg_blue', 'bg_default', 41, 49, {'c256': 3, 'c': 'bg'}, 'bg_rgb(1,2,3)',
           {'F': 'BG_BLUE'}, 'bg_orange', 104, '48;5;9'],
    'underline': ['underline', 'double_underline', 'no_underline', 4, 21, 24,
                  {'rgb': [1, 2, 3], 'c': 'ul'}, {'c256': 9, 'c': 'dul'}, 'default_underline_color',
                  'ul_red', 'dul_rgb(0x010203)', 59, '58;5;9'],
    'italics': ['italic', 'no_italic', 3, 23],
    'blinking': ['slow_blink', 'rapid_blink', 'no_blink', 5, 25],
    'swap': ['swap_bg_fg', 'no_swap_bg_fg', 7, 27],
    'visibility': ['hide', 'no_hide', 8, 28],
    'crossed': ['crossed_out', 'no_crossed_out', 9, 29],
    'font': ['alt_font_1', 'alt_font_2', 'gothic_font', 'default_font', 11, 10, 20],
    'spacing': ['proportional_spacing', 'no_proportional_spacing', 26, 50],
    'boxing': ['framed', 'encircled', 'no_framed_encircled', 51, 52, 54],
    'overline': ['overlined', 'no_overlined', 53, 55],
}
MAIN_FAMILIES = ['boldness', 'fg', 'fg', 'bg', 'underline', 'boldness']
RESETS = [0, '0', '[0', {'S': '0'}]
UNKNOWN = [56, 60, 99, '[99', 200, {'S': '73'}]
VERBATIM_WF = ['[1;31', '[38;5;214', {'S': '1;31'}, {'S': '4'}, '[22;34', {'S': '38;5;214;1'}, '[4;58;2;1;2;3']
ILLFORMED = ['[38;5', {'S': '1m'}, {'S': 'abc'}, '[;', '[1;;2', {'S': ' 1'}, '[38', {'S': '38;2;1;2'},
             {'S': '1;'}, '[31:1', {'S': '?1'}, '[38;5;300', {'S': '+1'}, {'S': 'K'}, '[1m\x1b[31']


def gen_setting(rng, profile='wf', focus=None):
    """one setting spec.  profile: 'wf' (well-formed only), 'mixed' (some reset /
    unknown / verbatim), 'hostile' (also ill-formed).  focus: families to draw from
    (conflicts and equal-valued duplicates become frequent)"""
    r = rng.random()
    if focus and r > 0.12:
        return rng.choice(FAMILIES[rng.choice(focus)])
    if profile == 'hostile' and r < 0.15:
        return rng.choice(ILLFORMED)
    if profile in ('mixed', 'hostile'):
        if r < 0.20:
            return rng.choice(rng.choice([RESETS, UNKNOWN, VERBATIM_WF, VERBATIM_WF]))
    if rng.random() < 0.75:
        fam = rng.choice(MAIN_FAMILIES)
    else:
        fam = rng.choice(list(FAMILIES))
    return rng.choice(FAMILIES[fam])


# truthy arguments that parse to no setting at all
EMPTYISH = [[';'], [';;;'], [['']], [{'T': ['']}], [[[]]], ['', ';'], [[], 'bold'], ['bold', ''], [';red'],
            ['bold', {'T': []}, 'red', {'T': []}], [[], 'bold', []], [{'T': []}], [[{'T': []}, 'underline'], 'red', {'T': []}]]


def gen_settings(rng, profile='wf', maxn=3, focus=None):
    """a list of 1..maxn setting specs, sometimes nested / as ';' string"""
    if rng.random() < 0.03:
        return list(rng.choice(EMPTYISH))
    n = 1 if rng.random() < 0.6 else rng.randint(1, maxn)
    out = [gen_setting(rng, profile, focus) for _ in range(n)]
    r = rng.random()
    if r < 0.08 and all(isinstance(x, str) and not x.startswith('[') for x in out):
        return [';'.join(out)]
    if r < 0.14:
        return [out]
    if r < 0.17:
        return [{'T': out}]
    return out


# --------------------------------------------------------------------------
# ANSI-coded input strings (C02 grammar)
# --------------------------------------------------------------------------
CODE_POOL = ([1, 2, 3, 4, 5, 7, 9, 21, 22, 23, 24, 27, 29, 31, 34, 39, 41, 49, 53, 55, 59, 0, 11, 10, 26, 50, 51, 54]
             + [91, 104, 6, 8, 28, 25])
UNKNOWN_CODES = [56, 57, 60, 73, 99, 110, 200, 255]


def gen_code_list(rng, maxn=8, tail_incomplete=True, unknown=True, reset=True):
    """list of integer tokens: known, unknown, clear, reset, ext-colour groups at any position"""
    toks = []
    n = rng.randint(0, maxn) if rng.random() < 0.9 else 0
    k = 0
    while k < n:
        r = rng.random()
        if r < 0.25:
            base = rng.choice([38, 48, 58])
            if rng.random() < 0.5:
                toks += [base, 5, rng.choice([0, 1, 9, 214, 255])]
            else:
                toks += [base, 2, rng.choice([0, 1, 255]), rng.choice([0, 2, 128]), rng.choice([0, 3, 255])]
        elif r < 0.29 and tail_incomplete:
            # a lone introducer in the middle of the list (selector neither 5 nor 2): an incomplete group
            toks.append(rng.choice([38, 48, 58]))
            if rng.random() < 0.5:
                toks.append(rng.choice([38, 48, 58, 1, 31, 0, 7, 3]))
        elif r < 0.33 and unknown:
            toks.append(rng.choice(UNKNOWN_CODES))
        elif r < 0.38 and reset:
            toks.append(0)
        else:
            c = rng.choice(CODE_POOL)
            if c == 0 and not reset:
                c = 1
            toks.append(c)
        k += 1
    if tail_incomplete and rng.random() < 0.12:
        base = rng.choice([38, 48, 58])
        toks += rng.choice([[base], [base, 5], [base, 2], [base, 2, 1], [base, 2, 1, 2]])
    return toks


HOSTILE_BODIES = ['\xb2', '1;\xb2', '\u2460', '\u0663', '\uff11', '1 ', ' 1', '?1', '1:2', '3x', '\xb9\u2075', '1;;\xb3',
                  '+1', '-1', '1_0', '0x1', '1.5', '1e2', '\t1', '38;5;\xb2', '999999999999999999999', '\x00', '\n']
NON_SGR = [ESC + '[2J', ESC + '[?25h', ESC + '[1;1H', ESC + '[K', ESC + '[10A', ESC + '[?25l', ESC + '[6n',
           ESC + '[>4;2m', ESC + '[?1m', ESC + '[>4m', ESC + '[1:2m', ESC + '[=1m']
UNTERMINATED = [ESC + '[', ESC + '[1', ESC + '[1;31', ESC + '[?2']


def gen_ansi_input(rng, maxlen=12):
    """text interleaved with SGR sequences (and non-SGR CSI sequences)."""
    parts = []
    n_chunks = rng.randint(1, 5)
    for ci in range(n_chunks):
        nseq = rng.choice([0, 1, 1, 1, 2, 3])
        for _ in range(nseq):
            r = rng.random()
            if r < 0.08:
                parts.append(rng.choice(NON_SGR))
            elif r < 0.11:
                # parameter strings a terminal cannot read (semantics grey; the constructor must still return)
                parts.append(ESC + '[' + rng.choice(HOSTILE_BODIES) + 'm')
            elif r < 0.14:
                parts.append(ESC)          # lone ESC stays text
            else:
                toks = gen_code_list(rng, maxn=5)
                body = ';'.join(str(t) for t in toks)
                if rng.random() < 0.05:
                    body = ''
                elif rng.random() < 0.08:
                    # an empty parameter stands for 0
                    parts_ = body.split(';') if body else []
                    parts_.insert(rng.randint(0, len(parts_)), '')
                    body = ';'.join(parts_) if len(parts_) > 1 else ';'
                parts.append(ESC + '[' + body + 'm')
        parts.append(gen_text(rng, maxlen=max(1, maxlen // 2)))
    if rng.random() < 0.15:
        parts.append(ESC + '[' + ';'.join(str(t) for t in gen_code_list(rng, 3)) + 'm')
    if rng.random() < 0.06:
        parts.append(rng.choice(UNTERMINATED))
    return ''.join(parts)


# --------------------------------------------------------------------------
# bounds
# --------------------------------------------------------------------------
def gen_bound(rng, n, cps=(), none_ok=True):
    r = rng.random()
    if none_ok and r < 0.12:
        return None
    if r < 0.45 and cps:
        c = rng.choice(list(cps))
        return c + rng.choice([0, 0, -1, 1])
    if r < 0.60:
        return rng.choice([0, n, n - 1, n + 1, 1])
    if r < 0.72:
        return rng.choice([-n, -n - 1, -1, -n + 1, -2])
    if r < 0.78:
        return rng.choice([10 ** 6, -10 ** 6, n + 7, -n - 7])
    return rng.randint(-n - 2, n + 2)


def gen_range(rng, n, cps=()):
    """(start, end) with Python slice semantics; ~80% of the ranges are non-empty after normalisation"""
    for attempt in range(3):
        a = gen_bound(rng, n, cps)
        b = gen_bound(rng, n, cps)
        if a is not None and b is not None and rng.random() < 0.8:
            aa = a if a >= 0 else a + n
            bb = b if b >= 0 else b + n
            if aa > bb:
                a, b = b, a
        lo, hi, _ = slice(a, b).indices(n)
        if hi > lo or rng.random() < 0.2:
            break
    return a, b


# --------------------------------------------------------------------------
# op execution
# --------------------------------------------------------------------------
class Exec:
    def __init__(self, L, ctx=None, mon=None):
        self.L = L
        self.ctx = ctx
        self.mon = mon
        self.pool = []
        self.in_run = False

    # -- spec encoding (the reverse of dec: used to put calls a driver makes directly into the transcript) ------
    def enc(self, x, depth=0):
        L = self.L
        if isinstance(x, (L.AnsiString, L.AnsiStr)):
            for i, p in enumerate(self.pool):
                if p is x:
                    return {'$': i}
            raise ValueError('value outside the pool')
        if x is None or isinstance(x, (str, int, float, bool)):
            return x
        if isinstance(x, L.AnsiSetting):
            return {'S': str(x)}
        if isinstance(x, L.AnsiFormat):
            return {'F': x.name}
        if depth < 5:
            if isinstance(x, tuple):
                return {'T': [self.enc(e, depth + 1) for e in x]}
            if isinstance(x, list):
                return [self.enc(e, depth + 1) for e in x]
        if isinstance(x, slice):
            return {'sl': [x.start, x.stop, x.step]}
        raise ValueError('not encodable')

    def record_direct(self, clsname, name, recv, args, kwargs):
        """transcript entry for an outermost library call that did not come through run()"""
        if self.in_run or self.ctx is None or self.ctx.history is None:
            return
        try:
            if name in ('__init__', '__new__'):
                op = {'m': 'new', 'cls': clsname, 'a': [self.enc(a) for a in args]}
            elif recv is None:
                op = {'m': name, 'cls': clsname, 'a': [self.enc(a) for a in args]}
            else:
                op = {'m': name, 'r': self.enc(recv)['$'], 'a': [self.enc(a) for a in args]}
            if kwargs:
                op['k'] = {k: self.enc(v) for k, v in kwargs.items()}
        except Exception:
            # (cheap on purpose: this runs on every outermost call, also those an oracle makes while observing)
            op = {'m': name, 'cls': clsname, 'unrecorded': 'receiver or argument built by the driver outside the pool',
                  'a': [a if isinstance(a, (int, float, bool, type(None))) or (isinstance(a, str) and len(a) < 80)
                        else type(a).__name__ for a in args]}
        op['direct'] = True
        h = self.ctx.history
        self.n_direct = getattr(self, 'n_direct', 0) + 1
        if self.n_direct > 300 and h and h[-1].get('direct'):
            # long observation loops: keep the transcript bounded, the latest call (the one being judged) stays
            h[-1] = op
        else:
            h.append(op)

    # -- spec decoding ----------------------------------------------------
    def dec(self, x):
        L = self.L
        if isinstance(x, dict):
            if '$' in x:
                return self.pool[x['$']]
            if 'F' in x:
                return L.AnsiFormat[x['F']]
            if 'S' in x:
                return L.AnsiSetting(x['S'])
            if 'rgb' in x:
                fn = {'fg': L.AnsiFormat.fg_rgb, 'bg': L.AnsiFormat.bg_rgb, 'ul': L.AnsiFormat.ul_rgb,
                      'dul': L.AnsiFormat.dul_rgb, 'rgb': L.AnsiFormat.rgb}[x.get('c', 'fg')]
                return fn(*x['rgb'])
            if 'c256' in x:
                fn = {'fg': L.AnsiFormat.fg_color256, 'bg': L.AnsiFormat.bg_color256,
                      'ul': L.AnsiFormat.ul_color256, 'dul': L.AnsiFormat.dul_color256,
                      'c': L.AnsiFormat.color256, 'fgu': L.AnsiFormat.fg_colour256}[x.get('c', 'fg')]
                return fn(x['c256'])
            if 'T' in x:
                return tuple(self.dec(e) for e in x['T'])
            if 'sl' in x:
                return slice(*x['sl'])
            if 'L' in x:
                # one mutable list object per history, reused across calls with changing contents
                if not hasattr(self, 'shared_list'):
                    self.shared_list = []
                self.shared_list[:] = [self.dec(e) for e in x['L']]
                return self.shared_list
            if 'selflist' in x:
                lst = [self.dec(e) for e in x['selflist']]
                lst.append(lst)
                return lst
            if 'match' in x:
                pat, fl, which = x['match']
                ms = list(re.finditer(pat, self.dec(x['of']).base_str, fl))
                return ms[which % len(ms)] if ms else None
            if 'py' in x:
                return {'None': None, 'float': 1.5, 'bytes': b'1', 'dict': {}, 'obj': object()}[x['py']]
            raise ValueError('bad spec %r' % (x,))
        if isinstance(x, list):
            return [self.dec(e) for e in x]
        return x

    # -- run ---------------------------------------------------------------
    def run(self, op, record=True):
        """Execute one op; returns (result, exception).  Results are pooled."""
        L = self.L
        if record and self.ctx is not None and self.ctx.history is not None:
            self.ctx.history.append(op)
        m = op['m']
        a = [self.dec(x) for x in op.get('a', [])]
        k = {kk: self.dec(v) for kk, v in op.get('k', {}).items()}
        res = None
        self.in_run = True
        try:
            if m == 'new':
                cls = getattr(L, op.get('cls', 'AnsiString'))
                res = cls(*a, **k)
            elif m == 'join':
                cls = getattr(L, op.get('cls', 'AnsiString'))
                res = cls.join(*a)
            else:
                recv = self.pool[op['r']]
                if m == 'getitem':
                    res = recv[a[0]]
                elif m == 'add':
                    res = recv + a[0]
                elif m == 'iadd':
                    recv += a[0]
                    res = recv
                elif m == 'iter':
                    res = list(recv)
                elif m == 'str':
                    res = str(recv)
                elif m == 'format':
                    res = format(recv, a[0])
                elif m == 'fstring':
                    res = ('{:' + a[0] + '}').format(recv)
                elif m == 'len':
                    res = len(recv)
                elif m == 'contains':
                    res = a[0] in recv
                elif m == 'eq':
                    res = recv == a[0]
                elif m == 'repr':
                    res = repr(recv)
                elif m == 'pycopy':
                    import copy as _copy
                    import pickle as _pickle
                    if a[0] == 'copy':
                        res = _copy.copy(recv)
                    elif a[0] == 'deepcopy':
                        res = _copy.deepcopy([recv])[0]
                    else:
                        res = _pickle.loads(_pickle.dumps(recv, int(a[0][6:])))
                else:
                    res = getattr(recv, m)(*a, **k)
        except (Exception, StepBudgetExceeded) as e:  # the monitors have already seen it
            op['raised'] = type(e).__name__
            return None, e
        finally:
            self.in_run = False
        self.pool_result(res, op)
        return res, None

    def pool_result(self, res, op=None):
        L = self.L
        added = []
        if isinstance(res, (L.AnsiString, L.AnsiStr)):
            if not any(res is p for p in self.pool):
                self.pool.append(res)
                added.append(len(self.pool) - 1)
        elif isinstance(res, (list, tuple)):
            for x in res:
                if isinstance(x, (L.AnsiString, L.AnsiStr)) and not any(x is p for p in self.pool):
                    self.pool.append(x)
                    added.append(len(self.pool) - 1)
        elif isinstance(res, str) and len(res) < 400:
            self.pool.append(res)
            added.append(len(self.pool) - 1)
        if op is not None and added:
            op['out'] = added
        return added

    def idx_of(self, kinds):
        return [i for i, v in enumerate(self.pool) if isinstance(v, kinds)]


# --------------------------------------------------------------------------
# op generation
# --------------------------------------------------------------------------
CASE_METHODS = ['capitalize', 'casefold', 'lower', 'upper', 'swapcase', 'title']
QUERY_METHODS = ['count', 'find', 'rfind', 'index', 'rindex', 'endswith', 'isalnum', 'isalpha',
                 'isascii', 'isdecimal', 'isdigit', 'isidentifier', 'islower', 'isnumeric',
                 'isprintable', 'isspace', 'istitle', 'isupper']

DEFAULT_WEIGHTS = {
    'new': 4, 'new_ansi': 1.5, 'copy': 1.5, 'convert': 1.5,
    'apply': 8, 'remove': 4, 'clear_formatting': 0.4,
    'getitem': 5, 'clip': 2, 'iter': 0.4,
    'add': 5, 'iadd': 3, 'join': 2,
    'pad': 4, 'format': 2, 'to_str': 1,
    'strip': 2, 'split': 2, 'splitlines': 0.7, 'partition': 1.5, 'replace': 2.5, 'expandtabs': 0.5,
    'removefix': 1.2, 'case': 1.2, 'assign_str': 1.2, 'simplify': 0.8, 'set_ansi_str': 0.4,
    'format_matching': 1.5, 'unformat_matching': 1, 'query': 1, 'find_settings': 1, 'settings_at': 0.6,
    'eq': 0.3, 'contains': 0.3, 'match_apply': 0.3, 'flags': 0.3,
}


class HistoryGen:
    def __init__(self, L, rng, ex, maxlen=12, profile='wf', weights=None, esc=False, pool_cap=20, focus='auto'):
        self.L = L
        self.rng = rng
        if focus == 'auto':
            # half of the histories draw their settings from one or two effect groups only
            r = rng.random()
            if r < 0.3:
                focus = [rng.choice(list(FAMILIES))]
            elif r < 0.5:
                focus = rng.sample(list(FAMILIES), 2)
            else:
                focus = None
        self.focus = focus
        self.ex = ex
        self.maxlen = maxlen
        self.profile = profile
        self.esc = esc
        self.pool_cap = pool_cap
        w = dict(DEFAULT_WEIGHTS)
        if weights:
            w.update(weights)
        self.kinds = [k for k, v in w.items() if v > 0]
        self.wts = [w[k] for k in self.kinds]

    # helpers -----------------------------------------------------------
    def text(self, allow_empty=True, maxlen=None):
        return gen_text(self.rng, maxlen or self.maxlen, allow_empty, self.esc)

    def settings(self, maxn=3, profile=None):
        return gen_settings(self.rng, profile or self.profile, maxn, self.focus)

    LEN_CAP = 160

    def vals(self):
        # values that grew too long (a += a repeatedly, replace with the receiver) are not used as
        # receivers any more: observation cost is quadratic in the length
        return [i for i in self.ex.idx_of((self.L.AnsiString, self.L.AnsiStr))
                if len(self.ex.pool[i].base_str) <= self.LEN_CAP]

    def pick_val(self, prefer_styled=True):
        idxs = self.vals()
        if not idxs:
            return None
        rng = self.rng
        if prefer_styled and rng.random() < 0.7:
            # newest values are the interesting ones (results fed back)
            cand = idxs[-6:]
            return rng.choice(cand)
        return rng.choice(idxs)

    def pick_operand(self):
        """pool ref or a literal str"""
        rng = self.rng
        r = rng.random()
        idxs = [i for i, v in enumerate(self.ex.pool) if len(v) <= self.LEN_CAP]
        if r < 0.75 and idxs:
            i = rng.choice(idxs[-8:]) if rng.random() < 0.6 else rng.choice(idxs)
            v = self.ex.pool[i]
            if isinstance(v, str) and not isinstance(v, self.L.AnsiStr) and ESC in v and not self.esc:
                return self.text()
            return {'$': i}
        return self.text()

    def cps(self, v):
        try:
            with self.ex.mon.quiet():
                o = O.observe(v)
            return o.change_points()
        except Exception:
            return []

    def bound(self, v, none_ok=True):
        return gen_bound(self.rng, len(v.base_str), self.cps(v), none_ok)

    def range_(self, v):
        return gen_range(self.rng, len(v.base_str), self.cps(v))

    def substr(self, v, allow_empty=False):
        """a substring of v's text (likely to match) or a random short text"""
        rng = self.rng
        t = v.base_str
        r = rng.random()
        if t and r < 0.7:
            i = rng.randrange(len(t))
            j = min(len(t), i + rng.choice([1, 1, 2, 2, 3]))
            return t[i:j]
        if allow_empty and r < 0.75:
            return ''
        return self.text(allow_empty=False, maxlen=2)

    # op makers ---------------------------------------------------------
    def seed_ops(self):
        """1-3 constructor ops so that the pool is not empty"""
        ops = []
        for _ in range(self.rng.choice([1, 2, 2, 3])):
            ops.append(self.mk_new())
        return ops

    def cls_name(self):
        return 'AnsiString' if self.rng.random() < 0.7 else 'AnsiStr'

    def mk_new(self):
        rng = self.rng
        a = [self.text()]
        if rng.random() < 0.85:
            a += self.settings()
        return {'m': 'new', 'cls': self.cls_name(), 'a': a}

    def mk_op(self, kind):  # noqa: C901
        rng = self.rng
        L = self.L
        pool = self.ex.pool
        if kind == 'new':
            return self.mk_new()
        if kind == 'new_ansi':
            strs = [i for i, v in enumerate(pool) if isinstance(v, str) and not isinstance(v, L.AnsiStr)]
            if strs and rng.random() < 0.6:
                return {'m': 'new', 'cls': self.cls_name(), 'a': [{'$': rng.choice(strs)}]}
            return {'m': 'new', 'cls': self.cls_name(), 'a': [gen_ansi_input(rng, self.maxlen)]}
        ri = self.pick_val()
        if ri is None:
            return self.mk_new()
        v = pool[ri]
        is_mut = isinstance(v, L.AnsiString)
        n = len(v.base_str)
        R = {'$': ri}
        if kind == 'copy':
            if rng.random() < 0.3:
                # the standard copy / pickle protocols (both classes)
                return {'m': 'pycopy', 'r': ri, 'a': [rng.choice(['copy', 'deepcopy', 'pickle0', 'pickle2', 'pickle5'])]}
            if is_mut and rng.random() < 0.5:
                return {'m': 'copy', 'r': ri}
            return {'m': 'new', 'cls': type(v).__name__, 'a': [R]}
        if kind == 'convert':
            a = [R]
            if rng.random() < 0.4:
                a += self.settings()
            return {'m': 'new', 'cls': 'AnsiStr' if is_mut else 'AnsiString', 'a': a}
        if kind == 'apply':
            st, en = self.range_(v)
            s = self.settings()
            a = [s if len(s) != 1 or rng.random() < 0.3 else s[0]]
            if rng.random() < 0.02:
                a = [0]
            k = {}
            r = rng.random()
            if r < 0.15:
                pass
            elif r < 0.3:
                a.append(st if st is not None else 0)
            else:
                a += [st if st is not None else 0, en]
            if rng.random() < 0.35:
                k['topmost'] = False
            return {'m': 'apply_formatting', 'r': ri, 'a': a, 'k': k}
        if kind == 'remove':
            st, en = self.range_(v)
            r = rng.random()
            if r < 0.3:
                s = None
            elif r < 0.75:
                with self.ex.mon.quiet():
                    present = sorted(O.observe(v).all_texts())
                if present:
                    pick = rng.sample(present, min(len(present), rng.choice([1, 1, 2])))
                    s = [('[' + p) if rng.random() < 0.5 else {'S': p} for p in pick]
                    if len(s) == 1 and rng.random() < 0.5:
                        s = s[0]
                else:
                    s = self.settings()
            else:
                s = self.settings()
            a = [s]
            r = rng.random()
            if r < 0.2:
                pass
            elif r < 0.3:
                a.append(st if st is not None else 0)
            else:
                a += [st if st is not None else 0, en]
            return {'m': 'remove_formatting', 'r': ri, 'a': a}
        if kind == 'clear_formatting':
            return {'m': 'clear_formatting', 'r': ri}
        if kind == 'getitem':
            if rng.random() < 0.3:
                i = rng.choice([0, -1, n - 1, -n, rng.randint(-n - 1, n)]) if n else rng.choice([0, -1])
                return {'m': 'getitem', 'r': ri, 'a': [i]}
            st, en = self.range_(v)
            sl = [st, en] if rng.random() < 0.9 else [st, en, rng.choice([1, None])]
            return {'m': 'getitem', 'r': ri, 'a': [{'sl': sl}]}
        if kind == 'clip':
            st, en = self.range_(v)
            k = {}
            if st is not None or rng.random() < 0.5:
                k['start'] = st
            if en is not None or rng.random() < 0.5:
                k['end'] = en
            if is_mut and rng.random() < 0.4:
                k['inplace'] = True
            return {'m': 'clip', 'r': ri, 'k': k}
        if kind == 'iter':
            return {'m': 'iter', 'r': ri}
        if kind == 'add':
            other = R if rng.random() < 0.12 else self.pick_operand()
            return {'m': 'add', 'r': ri, 'a': [other]}
        if kind == 'iadd':
            other = R if rng.random() < 0.12 else self.pick_operand()
            return {'m': 'iadd', 'r': ri, 'a': [other]}
        if kind == 'join':
            a = [self.pick_operand() for _ in range(rng.choice([0, 1, 2, 2, 3, 4]))]
            return {'m': 'join', 'cls': self.cls_name(), 'a': a}
        if kind == 'pad':
            m = rng.choice(['ljust', 'rjust', 'center', 'zfill'])
            w = rng.choice([0, n - 1, n, n + 1, n + 2, n + 3, n + 7, -3])
            a = [w]
            k = {}
            if m != 'zfill':
                if rng.random() < 0.7:
                    a.append(rng.choice([' ', '*', ':', '+', '-', '<', '0', '9', 'é', '^']))
                if is_mut and rng.random() < 0.4:
                    k['extend_formatting'] = rng.random() < 0.5
            if is_mut and rng.random() < 0.35:
                k['inplace'] = True
            return {'m': m, 'r': ri, 'a': a, 'k': k}
        if kind == 'format':
            return {'m': rng.choice(['format', 'fstring', 'format']), 'r': ri, 'a': [gen_format_spec(rng, n, self.profile)]}
        if kind == 'to_str':
            k = {'optimize': rng.random() < 0.5, 'reset_start': rng.random() < 0.5, 'reset_end': rng.random() < 0.5}
            a = [gen_format_spec(rng, n, self.profile)] if rng.random() < 0.3 else []
            return {'m': 'to_str', 'r': ri, 'a': a, 'k': k}
        if kind == 'strip':
            m = rng.choice(['strip', 'lstrip', 'rstrip'])
            a = []
            if rng.random() < 0.6:
                t = v.base_str
                chars = (t[:1] + t[-1:]) if t and rng.random() < 0.7 else rng.choice([' ', 'ab', '', 'a', ' \t'])
                a = [chars]
            k = {'inplace': True} if is_mut and rng.random() < 0.35 else {}
            return {'m': m, 'r': ri, 'a': a, 'k': k}
        if kind == 'split':
            m = rng.choice(['split', 'rsplit'])
            a = []
            r = rng.random()
            if r < 0.25:
                a = []
            elif r < 0.35:
                a = [None]
            else:
                a = [self.substr(v)]
            if rng.random() < 0.5:
                if not a:
                    a = [None]
                a.append(rng.choice([-1, 0, 1, 2, 5]))
            return {'m': m, 'r': ri, 'a': a}
        if kind == 'splitlines':
            return {'m': 'splitlines', 'r': ri, 'a': ([rng.random() < 0.5] if rng.random() < 0.6 else [])}
        if kind == 'partition':
            return {'m': rng.choice(['partition', 'rpartition']), 'r': ri, 'a': [self.substr(v)]}
        if kind == 'replace':
            old = self.substr(v, allow_empty=False)
            if rng.random() < 0.3 and n >= 2:
                # a match of length >= 2 that straddles a change point
                cps = self.cps(v)
                if cps:
                    c = rng.choice(cps)
                    old = v.base_str[max(0, c - 1):c + rng.choice([1, 2])] or old
            r = rng.random()
            if r < 0.08:
                new = old
            elif r < 0.45:
                new = self.text(maxlen=3)
            elif r < 0.55:
                new = R
            else:
                new = self.pick_operand()
            a = [old, new]
            if rng.random() < 0.5:
                a.append(rng.choice([-1, 0, 1, 2]))
            # keep results observable: many matches x a long replacement would give texts of 10^4..10^5 characters,
            # on which the per-character observation of the monitors (quadratic in the library) takes minutes
            try:
                newlen = len(self.ex.pool[new['$']].base_str) if isinstance(new, dict) and '$' in new else len(new)
            except Exception:
                newlen = n
            if old and v.base_str.count(old) * newlen > 2000:
                a[2:] = [rng.choice([1, 2])]
            k = {'inplace': True} if is_mut and rng.random() < 0.35 else {}
            return {'m': 'replace', 'r': ri, 'a': a, 'k': k}
        if kind == 'expandtabs':
            a = [rng.choice([0, 1, 2, 8])] if rng.random() < 0.7 else []
            k = {'inplace': True} if is_mut and rng.random() < 0.35 else {}
            return {'m': 'expandtabs', 'r': ri, 'a': a, 'k': k}
        if kind == 'removefix':
            t = v.base_str
            if rng.random() < 0.5:
                m = 'removeprefix'
                fix = t[:rng.choice([0, 1, 2, n])] if rng.random() < 0.8 else self.text(maxlen=2)
            else:
                m = 'removesuffix'
                c = rng.choice([0, 1, 2, n])
                fix = (t[n - c:] if c else '') if rng.random() < 0.8 else self.text(maxlen=2)
            k = {'inplace': True} if is_mut and rng.random() < 0.35 else {}
            return {'m': m, 'r': ri, 'a': [fix], 'k': k}
        if kind == 'case':
            k = {'inplace': True} if is_mut and rng.random() < 0.35 else {}
            return {'m': rng.choice(CASE_METHODS), 'r': ri, 'k': k}
        if kind == 'assign_str':
            if not is_mut:
                return {'m': 'upper', 'r': ri}
            t = v.base_str
            r = rng.random()
            if r < 0.35:
                nt = t + self.text(allow_empty=False, maxlen=3)
            elif r < 0.7:
                nt = t[:rng.randint(0, n)] if n else ''
            else:
                nt = self.text()
            return {'m': 'assign_str', 'r': ri, 'a': [nt]}
        if kind == 'simplify':
            return {'m': 'simplify', 'r': ri}
        if kind == 'set_ansi_str':
            if not is_mut:
                return {'m': 'simplify', 'r': ri}
            return {'m': 'set_ansi_str', 'r': ri, 'a': [gen_ansi_input(rng, self.maxlen)]}
        if kind in ('format_matching', 'unformat_matching'):
            spec, kw = gen_matchspec(rng, v.base_str)
            a = [spec]
            if kind == 'format_matching':
                a += self.settings(maxn=2)
            else:
                r = rng.random()
                if r < 0.3:
                    pass
                elif r < 0.4:
                    a.append(None)
                else:
                    with self.ex.mon.quiet():
                        present = sorted(O.observe(v).all_texts())
                    if present and rng.random() < 0.7:
                        a.append('[' + rng.choice(present))
                    else:
                        a += self.settings(maxn=2)
            return {'m': kind, 'r': ri, 'a': a, 'k': kw}
        if kind == 'match_apply':
            t = v.base_str
            if not t:
                return {'m': 'simplify', 'r': ri}
            pat = re.escape(rng.choice(t))
            return {'m': 'apply_formatting_for_match', 'r': ri,
                    'a': [self.settings(maxn=2), {'match': [pat, 0, rng.randrange(4)], 'of': R}]}
        if kind == 'query':
            m = rng.choice(QUERY_METHODS)
            if m in ('count', 'find', 'rfind', 'index', 'rindex', 'endswith'):
                a = [self.substr(v, allow_empty=True)]
                if rng.random() < 0.5:
                    a.append(gen_bound(rng, n))
                    if rng.random() < 0.6:
                        a.append(gen_bound(rng, n))
                return {'m': m, 'r': ri, 'a': a}
            return {'m': m, 'r': ri}
        if kind == 'find_settings':
            with self.ex.mon.quiet():
                present = sorted(O.observe(v).all_texts())
            if present and rng.random() < 0.8:
                pick = rng.sample(present, min(len(present), rng.choice([1, 1, 2, 3])))
                s = [('[' + p) for p in pick]
            elif rng.random() < 0.15:
                s = []
            else:
                s = self.settings()
            st, en = self.range_(v)
            a = [s]
            if rng.random() < 0.8:
                a.append(st if st is not None else 0)
                if rng.random() < 0.8:
                    a.append(en)
            k = {'reverse': True} if rng.random() < 0.4 else {}
            return {'m': 'find_settings', 'r': ri, 'a': a, 'k': k}
        if kind == 'settings_at':
            return {'m': rng.choice(['settings_at', 'ansi_settings_at']), 'r': ri,
                    'a': [rng.choice([-1, 0, n - 1, n, n + 1, -n, rng.randint(-2, n + 2)])]}
        if kind == 'flags':
            return {'m': rng.choice(['is_formatting_valid', 'is_formatting_parsable', 'is_optimizable', 'str']), 'r': ri}
        if kind == 'eq':
            return {'m': 'eq', 'r': ri, 'a': [self.pick_operand()]}
        if kind == 'contains':
            return {'m': 'contains', 'r': ri, 'a': [self.substr(v, allow_empty=True) if rng.random() < 0.7 else self.pick_operand()]}
        raise ValueError(kind)

    def step(self):
        kind = self.rng.choices(self.kinds, self.wts)[0]
        if len(self.ex.pool) >= self.pool_cap and kind in ('new', 'new_ansi', 'copy', 'convert'):
            kind = 'apply'
        op = self.mk_op(kind)
        return op

    def run_history(self, nops):
        for op in self.seed_ops():
            self.ex.run(op)
        for _ in range(nops):
            if len(self.ex.pool) > self.pool_cap * 2:
                break
            op = self.step()
            self.ex.run(op)


FILLS = ['', ' ', '*', ':', '+', '-', '<', '>', '^', '0', '9', 'é', 'x', '\n', '\t']
ANSI_PARTS = ['red', 'bold', 'underline;red', 'rgb(1,2,3)', 'bg_blue;italic', '1;31', 'blue', '[4', 'no_bold_faint',
              'ul_rgb(0x010203)', 'color256(9)', '', 'BOLD;Red']


def gen_format_spec(rng, n, profile='wf', invalid_ok=True):
    r = rng.random()
    if invalid_ok and r < 0.08:
        return rng.choice(['+5', ' 5', '<+5', 'ab<5', '5x', '=5', 'x', '<<5', '^ 5', '-', '5.2', '<5d', 'é', '>5\n', '5\n',
                           '*^6\n', '\n', '>5:bold\n', '>99999999999999999999', '99999999999999999999:red', ':red\n'])
    fill = rng.choice(FILLS)
    flag = rng.choice(['', '', '+', '-'])
    align = rng.choice(['<', '>', '^', '<', '>', '^', ''])
    width = rng.choice(['', str(n), str(n + 1), str(n + 2), str(n + 3), str(n + 7), '0', str(max(0, n - 1))])
    if align == '':
        fill = ''
        flag = ''
    spec = fill + flag + align + width
    r = rng.random()
    if r < 0.55:
        spec += ':' + rng.choice(ANSI_PARTS)
    elif r < 0.6:
        spec += ':'
    return spec


def gen_matchspec(rng, text):
    kw = {}
    r = rng.random()
    if r < 0.5:
        # plain pattern, likely to match, possibly with metacharacters / case change
        if text:
            i = rng.randrange(len(text))
            p = text[i:i + rng.choice([1, 1, 2, 3])]
            if rng.random() < 0.4:
                p = p.swapcase()
        else:
            p = rng.choice(['a', '.', ''])
        if rng.random() < 0.15:
            p = rng.choice(['.', 'a+', '(', '[', 'a.', '\\', '*', 'A'])
    else:
        kw['regex'] = True
        ch = (rng.choice(text) if text else 'a')
        ch = re.escape(ch)
        p = rng.choice(['a*', 'b?', '(?=a)', 'ab|b', '.', ch + '+', ch, '[ab]', '\\w+', '\\s', '(a)(b)?', ch + '*',
                        '$', '^', 'A', '[A-Z]', '', 'a*?', ch + '*?', ch + '??', '|' + ch + 'b', '|' + ch, '\\b|\\w',
                        ch + '{0,2}?', '\\d*|[a-z]+', '(?:)|' + ch + '+', ch + '|', '\\B', '(?i:' + ch + ')',
                        '\\S+', '\\s+', '\\W', '\\w', '\\D+', '\\d+', '\\S', '\\b' + ch, '\\B' + ch])
    if rng.random() < 0.4:
        kw['match_case'] = rng.random() < 0.6
    if rng.random() < 0.5:
        kw['count'] = rng.choice([-1, 0, 1, 2, 3])
    return p, kw
