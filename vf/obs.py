"""Shadow observation of a value through the public API only, and the
equivalences the properties speak about."""
from . import sgr_model as M


class Obs:
    """text + per-character list of the AnsiSetting objects reported.

    The setting objects themselves are kept (so that id()s stay meaningful);
    texts[i] is the list of their str()."""
    __slots__ = ('text', 'objs', 'texts', 'kind')

    def __init__(self, text, objs, kind=None):
        self.text = text
        self.objs = objs
        self.texts = [[str(s) for s in row] for row in objs]
        self.kind = kind

    def __len__(self):
        return len(self.text)

    def ids(self, i):
        return [id(s) for s in self.objs[i]]

    def styled(self):
        return any(self.texts)

    def all_texts(self):
        out = set()
        for row in self.texts:
            out.update(row)
        return out

    def change_points(self):
        """indices i>0 where the reported list differs (by text or identity) from i-1."""
        cps = []
        for i in range(1, len(self.text)):
            if self.texts[i] != self.texts[i - 1] or [id(x) for x in self.objs[i]] != [id(x) for x in self.objs[i - 1]]:
                cps.append(i)
        return cps

    def describe(self):
        return {'text': self.text, 'settings': [';'.join(r) if r else '' for r in self.texts]}

    def key(self):
        return (self.text, tuple(tuple(r) for r in self.texts))


class ObsError(Exception):
    """the library raised while a monitor observed a value through the public queries"""

    def __init__(self, exc):
        Exception.__init__(self, repr(exc))
        self.exc = exc


HEARTBEAT = None      # set by run_cases: long observation loops of the monitors are progress, not a hang


def observe(v):
    """v: AnsiString or AnsiStr (anything with base_str / ansi_settings_at)."""
    if HEARTBEAT is not None:
        HEARTBEAT()
    try:
        text = v.base_str
        objs = [v.ansi_settings_at(i) for i in range(len(text))]
    except Exception as e:
        raise ObsError(e)
    return Obs(text, objs, type(v).__name__)


def plain_obs(s):
    return Obs(s, [[] for _ in s], 'str')


def observe_any(v):
    if hasattr(v, 'ansi_settings_at'):
        return observe(v)
    if isinstance(v, str):
        return plain_obs(v)
    raise TypeError(type(v))


_GT_CACHE = {}


def groups_touched(text):
    g = _GT_CACHE.get(text)
    if g is None:
        g = M.groups_touched(text)
        if len(_GT_CACHE) < 100000:
            _GT_CACHE[text] = g
    return g


def prec_equiv(a, b):
    """Two per-character lists of setting texts are precedence-equivalent iff they
    are equal as multisets and, for every effect group, the sub-lists of settings
    touching that group are equal as sequences (reset / ill-formed touch all)."""
    if a == b:
        return True
    if len(a) != len(b) or sorted(a) != sorted(b):
        return False
    ga = [groups_touched(t) for t in a]
    gb = [groups_touched(t) for t in b]
    groups = set()
    for g in ga:
        groups |= g
    for g in groups:
        sa = [t for t, gg in zip(a, ga) if g in gg]
        sb = [t for t, gg in zip(b, gb) if g in gg]
        if sa != sb:
            return False
    return True


def style_of(texts):
    """(frozen display state, grey_reason)"""
    st, grey = M.reduce_settings(texts)
    return M.freeze(st), grey


def styles(o):
    """per-character frozen display states and the first grey reason (or None)."""
    out = []
    grey = None
    cache = {}
    for row in o.texts:
        k = tuple(row)
        r = cache.get(k)
        if r is None:
            r = style_of(row)
            cache[k] = r
        out.append(r[0])
        if r[1] and grey is None:
            grey = r[1]
    return out, grey


def first_diff_equiv(exp_rows, got_rows):
    """index of the first character whose lists are not precedence-equivalent, or None."""
    if len(exp_rows) != len(got_rows):
        return min(len(exp_rows), len(got_rows))
    for i, (e, g) in enumerate(zip(exp_rows, got_rows)):
        if not prec_equiv(e, g):
            return i
    return None


def first_diff_exact(exp_rows, got_rows):
    if len(exp_rows) != len(got_rows):
        return min(len(exp_rows), len(got_rows))
    for i, (e, g) in enumerate(zip(exp_rows, got_rows)):
        if e != g:
            return i
    return None


def has_esc(text):
    return '\x1b' in text


def wellformed(o):
    """every setting text in use is a list of complete groups"""
    for t in o.all_texts():
        if not M.is_wellformed_setting(t):
            return False
    return True
