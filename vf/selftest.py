"""Import self-check and oracle sanity tests (run by MANIFEST.setup_cmd).

Checks the *oracles* against hand-computed facts typed from ECMA-48, so that a
broken reference model is noticed before it judges anything."""
import sys


def main():
    from . import env, sgr_model as M, obs as O
    L = env.load()
    assert L.core.__file__.startswith(env.SRC), L.core.__file__
    # reference terminal
    st, g = M.reduce_settings(['1', '31', '22', '38;5;214', '4', '24', '58;2;1;2;3'])
    assert g is None and st == {'fg': '38;5;214', 'ul_color': '58;2;1;2;3'}, st
    st, g = M.reduce_settings(['1;31', '0', '3'])
    assert st == {'italics': '3'}
    e = M.emulate('\x1b[1;38;5;214mab\x1b[22mc\x1b[m', {})
    assert [c for c, _ in e.cells] == list('abc')
    assert dict(e.cells[0][1]) == {'boldness': '1', 'fg': '38;5;214'}
    assert dict(e.cells[2][1]) == {'fg': '38;5;214'} and e.final == {} and not e.malformed
    e = M.emulate('\x1b[0;mX', M.DIRTY)
    assert e.starts_with_reset and dict(e.cells[0][1]) == {}
    assert M.emulate('\x1b[38;5mX').malformed
    assert M.emulate('a\x1b[2Jb').malformed
    assert not M.is_wellformed_setting('38;5') and M.is_wellformed_setting('38;5;1;4') and M.is_wellformed_setting('99')
    assert not M.is_wellformed_setting('1;;2') and not M.is_wellformed_setting('1m')
    assert M.groups_touched('1;31') == frozenset({'boldness', 'fg'}) and M.groups_touched('0') == M.ALL
    assert O.prec_equiv(['1', '31'], ['31', '1']) and not O.prec_equiv(['34', '31'], ['31', '34'])
    assert not O.prec_equiv(['1'], ['1', '1']) and O.prec_equiv(['0', '1'], ['0', '1']) and not O.prec_equiv(['0', '1'], ['1', '0'])
    assert len(M.DIRTY) == 14 and set(M.DIRTY) == set(M.GROUPS)
    # monitors bind
    from .monitor import Ctx, Monitor
    ctx = Ctx(L, 'SELF')
    mon = Monitor(ctx)
    mon.install()
    s = L.AnsiString('ab', 'red') + 'c'
    str(s)
    assert ctx.outer['AnsiString.__init__'] >= 1 and ctx.outer['AnsiString.__add__'] == 1, dict(ctx.outer)
    assert ctx.nested['AnsiString.__iadd__'] >= 1
    a = L.AnsiStr('x', 'bold')
    assert ctx.outer['AnsiStr.__new__'] == 1
    print('selftest ok: library at %s, %d wrapped entry points observed' % (L.core.__file__, len(ctx.outer)))
    return 0


if __name__ == '__main__':
    sys.exit(main())
