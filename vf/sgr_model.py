"""Reference SGR terminal (ECMA-48 "select graphic rendition") - the oracle.

Hand-written from the standard and from the *documentation* of the library's
effect groups ("only 1 of each group may be set at a time").  Nothing here is
imported from the code under test, so an edit of the repository's code->group
table or of EFFECT_CLEAR_DICT shows up as a disagreement.

State = dict group -> canonical value text; a group at its default is absent.
"""
import re

# group names
BOLD, ITAL, UL, BLINK, SWAP, VIS, CROSS, FONT, SPACE, BOX, OVER, FG, BG, ULC = (
    'boldness', 'italics', 'underline', 'blinking', 'swap', 'visibility',
    'crossed_out', 'font', 'spacing', 'boxing', 'overline', 'fg', 'bg',
    'ul_color')
GROUPS = (BOLD, ITAL, UL, BLINK, SWAP, VIS, CROSS, FONT, SPACE, BOX, OVER, FG, BG, ULC)
ALL = frozenset(GROUPS) | {'unknown'}

APPLY = {}
CLEAR = {}


def _tab():
    def ap(g, *codes):
        for c in codes:
            APPLY[c] = g

    ap(BOLD, 1, 2)
    ap(ITAL, 3)
    ap(UL, 4, 21)
    ap(BLINK, 5, 6)
    ap(SWAP, 7)
    ap(VIS, 8)
    ap(CROSS, 9)
    ap(FONT, *range(11, 21))
    ap(SPACE, 26)
    ap(BOX, 51, 52)
    ap(OVER, 53)
    ap(FG, *range(30, 38))
    ap(FG, *range(90, 98))
    ap(BG, *range(40, 48))
    ap(BG, *range(100, 108))
    CLEAR.update({22: BOLD, 23: ITAL, 24: UL, 25: BLINK, 27: SWAP, 28: VIS,
                  29: CROSS, 10: FONT, 50: SPACE, 54: BOX, 55: OVER, 39: FG,
                  49: BG, 59: ULC})


_tab()
EXT = {38: FG, 48: BG, 58: ULC}
KNOWN_CODES = frozenset(APPLY) | frozenset(CLEAR) | frozenset(EXT) | {0}

# every group set to something - used as the "dirty" prior terminal state
DIRTY = {BOLD: '2', ITAL: '3', UL: '21', BLINK: '6', SWAP: '7', VIS: '8',
         CROSS: '9', FONT: '17', SPACE: '26', BOX: '52', OVER: '53',
         FG: '38;5;201', BG: '48;2;9;8;7', ULC: '58;5;77'}

_DEC = re.compile(r'[0-9]+\Z')


class Parsed:
    """Result of reading one parameter list."""
    __slots__ = ('ops', 'grey', 'incomplete_tail', 'tokens', 'has_empty')

    def __init__(self):
        self.has_empty = False   # an empty token inside a non-empty list (means 0 to a terminal)
        self.ops = []            # ('set', group, value) | ('clear', group) | ('reset',) | ('unknown', code)
        self.grey = None         # reason the oracle declines, or None
        self.incomplete_tail = False
        self.tokens = []


def parse_params(text):
    """Read a ';'-separated SGR parameter list the way a terminal does.

    grey is set (first reason wins) for inputs where "conforming" is debatable:
    empty / padded / signed / non-ASCII-digit tokens inside a non-empty list,
    colour arguments > 255, 38/48/58 followed by neither 5;n nor 2;r;g;b in the
    middle of the list.  An incomplete colour group at the *end* of the list is
    not grey: it contributes nothing (incomplete_tail=True).
    """
    p = Parsed()
    if text == '':
        p.ops.append(('reset',))
        return p
    toks = text.split(';')
    p.tokens = toks
    vals = []
    for t in toks:
        if _DEC.match(t) and t.isascii():
            vals.append(int(t))
        else:
            if t == '':
                p.has_empty = True
            elif p.grey is None:
                p.grey = 'non-decimal-token'
            vals.append(None)
    i = 0
    n = len(vals)
    while i < n:
        c = vals[i]
        if c is None:
            # an empty parameter means 0 to a terminal; anything else is undefined
            if toks[i] == '':
                p.ops.append(('reset',))
            i += 1
            continue
        if c in EXT:
            g = EXT[c]
            # (an empty parameter is 0 in argument position too)
            rest = [0 if toks[j] == '' else vals[j] for j in range(i + 1, n)]
            if not rest:
                p.incomplete_tail = True
                i += 1
                continue
            if rest[0] == 5:
                if len(rest) < 2:
                    p.incomplete_tail = True
                    i = n
                    continue
                a = rest[1]
                if a is None or a > 255:
                    if p.grey is None:
                        p.grey = 'colour-arg-out-of-range'
                    i += 3
                    continue
                p.ops.append(('set', g, '%d;5;%d' % (c, a)))
                i += 3
                continue
            if rest[0] == 2:
                if len(rest) < 4:
                    p.incomplete_tail = True
                    i = n
                    continue
                a = rest[1:4]
                if any(x is None or x > 255 for x in a):
                    if p.grey is None:
                        p.grey = 'colour-arg-out-of-range'
                    i += 5
                    continue
                p.ops.append(('set', g, '%d;2;%d;%d;%d' % (c, a[0], a[1], a[2])))
                i += 5
                continue
            # 38 followed by something else
            if p.grey is None:
                p.grey = 'ext-colour-bad-selector'
            i += 1
            continue
        if c == 0:
            p.ops.append(('reset',))
        elif c in APPLY:
            p.ops.append(('set', APPLY[c], str(c)))
        elif c in CLEAR:
            p.ops.append(('clear', CLEAR[c]))
        else:
            p.ops.append(('unknown', c))
        i += 1
    return p


def apply_ops(ops, state):
    for op in ops:
        if op[0] == 'set':
            state[op[1]] = op[2]
        elif op[0] == 'clear':
            state.pop(op[1], None)
        elif op[0] == 'reset':
            state.clear()
    return state


def reduce_settings(texts, state=None):
    """Display state after applying setting texts in order (each its own group list).

    Returns (state, grey_reason)."""
    st = dict(state or {})
    grey = None
    for t in texts:
        p = parse_params(t)
        if p.grey and grey is None:
            grey = p.grey
        if p.has_empty and grey is None:
            grey = 'empty-token'
        if p.incomplete_tail and grey is None:
            # an incomplete colour group that is *followed by another setting* in
            # the rendered sequence would swallow it: not well-formed as a setting
            grey = 'incomplete-group-setting'
        apply_ops(p.ops, st)
    return st, grey


def is_wellformed_setting(text):
    """A setting text made only of complete groups (known or unknown codes, reset)."""
    if text == '':
        return False
    p = parse_params(text)
    return p.grey is None and not p.incomplete_tail and not p.has_empty


def groups_touched(text):
    """Effect groups a setting text can influence.  ALL for reset / ill-formed."""
    if not is_wellformed_setting(text):
        return ALL
    p = parse_params(text)
    out = set()
    for op in p.ops:
        if op[0] == 'reset':
            return ALL
        if op[0] == 'unknown':
            out.add('unknown')
        else:
            out.add(op[1])
    return frozenset(out)


SGR_RE = re.compile('\x1b\\[([0-9;]*)m')


class Emu:
    __slots__ = ('cells', 'final', 'starts_with_reset', 'malformed', 'grey', 'n_seq', 'seqs')


def emulate(out, initial=None):
    """Interpret `out` on a terminal starting in `initial` state.

    cells = [(char, frozen state)] for every non-SGR character.  Any ESC that is
    not the start of a strict SGR sequence is kept as a character and sets
    malformed."""
    st = dict(initial or {})
    e = Emu()
    e.cells = []
    e.malformed = None
    e.grey = None
    e.n_seq = 0
    e.seqs = []
    e.starts_with_reset = False
    pos = 0
    n = len(out)
    first = True
    while pos < n:
        ch = out[pos]
        if ch == '\x1b':
            m = SGR_RE.match(out, pos)
            if m:
                body = m.group(1)
                p = parse_params(body)
                if p.grey and e.grey is None:
                    e.grey = p.grey
                if p.incomplete_tail and e.malformed is None:
                    e.malformed = 'incomplete colour group in %r' % body
                if first:
                    e.starts_with_reset = bool(p.ops) and p.ops[0] == ('reset',)
                apply_ops(p.ops, st)
                e.n_seq += 1
                e.seqs.append(body)
                pos = m.end()
                first = False
                continue
            if e.malformed is None:
                e.malformed = 'ESC not starting an SGR sequence at %d' % pos
        first = False
        e.cells.append((ch, tuple(sorted(st.items()))))
        pos += 1
    e.final = dict(st)
    return e


def freeze(state):
    return tuple(sorted(state.items()))
