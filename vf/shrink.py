"""Witness minimisation for a replay file:  ./check <ID> --shrink replays/<file>.json

Re-executes the recorded history (the JSON op list of the violating case) under the same monitors and removes ops
one at a time for as long as a violation with the same mechanism key is still reported (greedy one-op delta
debugging to a fixpoint; pool references are renumbered after every removal).  Then shortens texts of `new` ops the
same way.  Writes <file>.min.json and prints the remaining calls.  A violation that is raised by a probe of the
driver (outside the recorded ops) cannot be reproduced from the ops alone; that is reported, not guessed.

Never part of a verdict: a convenience for reading witnesses.
"""
import copy
import importlib
import json
import sys


class Unmappable(Exception):
    pass


def remap(x, mp):
    if isinstance(x, dict):
        if '$' in x:
            if x['$'] not in mp:
                raise Unmappable()
            return {'$': mp[x['$']]}
        return {k: remap(v, mp) for k, v in x.items()}
    if isinstance(x, list):
        return [remap(e, mp) for e in x]
    return x


def trial(L, mon, ctx, ops, target):
    from .gen import Exec
    ctx.violations = []
    ctx.viol_keys.clear()
    ctx.n_violations = 0
    ctx.history = []
    ctx.case = {'shrink': True}
    mon.depth = 0
    ex = Exec(L, ctx, mon)
    ctx.ex = ex
    mp = {}
    done = []
    try:
        for op in ops:
            if 'unrecorded' in op:
                continue
            op2 = {k: remap(v, mp) for k, v in op.items() if k not in ('out', 'raised', 'r')}
            if 'r' in op:
                if op['r'] not in mp:
                    raise Unmappable()
                op2['r'] = mp[op['r']]
            ex.run(op2)
            for o, n in zip(op.get('out', []), op2.get('out', [])):
                mp[o] = n
            done.append(op2)
            if any(v['mechanism'] == target for v in ctx.violations):
                return done
    except Unmappable:
        return None
    except BaseException:
        return None
    return None


def main(argv):
    prop, path = argv[0].upper(), argv[1]
    rec = json.load(open(path))
    target = rec['mechanism']
    ops = rec.get('history') or []
    from . import env
    from .monitor import Ctx, Monitor
    L = env.load()
    mod = importlib.import_module('vf.props.' + prop.lower())
    ctx = Ctx(L, prop, 'quick', 0, 0)
    mon = Monitor(ctx, step_budget=None, budget_judged=False)
    mon.contracts = mod.contracts(ctx, mon)
    mon.install()
    base = trial(L, mon, ctx, copy.deepcopy(ops), target)
    if base is None:
        print('shrink: the recorded ops alone do not reproduce mechanism %r (the violation comes from a probe of the '
              'driver or depends on generator state); use --replay, which regenerates the whole case' % target)
        return 0
    # (ops behind the one that was judged, and calls the transcript could not encode, are dropped first)
    ops = [op for op in copy.deepcopy(ops) if 'unrecorded' not in op][:len(base)]
    n0 = len(rec.get('history') or [])
    changed = True
    trials = 1
    while changed:
        changed = False
        for i in reversed(range(len(ops))):
            if i >= len(ops):
                continue
            cand = ops[:i] + ops[i + 1:]
            trials += 1
            if trial(L, mon, ctx, copy.deepcopy(cand), target) is not None:
                ops = cand
                changed = True
    # shorten literal texts of constructors
    for op in ops:
        if op.get('m') == 'new' and op.get('a') and isinstance(op['a'][0], str):
            t = op['a'][0]
            k = 0
            while k < len(t):
                cand_t = t[:k] + t[k + 1:]
                old = op['a'][0]
                op['a'][0] = cand_t
                trials += 1
                if trial(L, mon, ctx, copy.deepcopy(ops), target) is not None:
                    t = cand_t
                else:
                    op['a'][0] = old
                    k += 1
    final = trial(L, mon, ctx, copy.deepcopy(ops), target)
    v = [x for x in ctx.violations if x['mechanism'] == target][0]
    out = dict(rec)
    out['history'] = final
    out['detail'] = v['detail']
    out['call'] = v['call']
    out['shrunk_from_ops'] = n0
    dst = path[:-5] + '.min.json' if path.endswith('.json') else path + '.min.json'
    with open(dst, 'w') as f:
        json.dump(out, f, indent=1, default=repr)
    print('shrink: %d -> %d ops in %d trials; mechanism %s still reported; wrote %s' % (n0, len(final), trials, target, dst))
    for op in final:
        print('   ', json.dumps({k: v for k, v in op.items()}, default=repr)[:300])
    print('    detail:', json.dumps(v['detail'], default=repr)[:600])
    return 0


if __name__ == '__main__':
    sys.exit(main(sys.argv[1:]))
