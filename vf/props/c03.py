"""C03 - render/re-parse round trip and simplify() preserve appearance and are stable."""
from .. import obs as O
from .. import sgr_model as M
from .common import trie_case, Contract, ansi_values, history, run_cases, tier_sizes, safe_obs, transition_values, small_scope_values, small_scope_on, stack_values

PROP = 'C03'
RULE = ('case = (a) one round trip AnsiString(str(s)) of a reachable value with well-formed settings, compared '
        'by text and per-character display style; (b) one simplify() call (in place on AnsiString, returning on '
        'AnsiStr): text and styles unchanged (pre-style from the valid settings only), afterwards parsable and '
        'every reported setting valid, second simplify leaves str unchanged, rendering is a fixed point of '
        'parse+render; (c) both on values holding a setting that cannot be read back - incomplete/out-of-range '
        'extended-colour groups given as integers (flat, tuple, nested), verbatim texts with non-ASCII digits or '
        'spaces - in four layouts, simplify() twice and again on an AnsiStr copy.  Non-trivial: >= 2 settings share a character; distinct = distinct (text, settings).')
ASSUMPTIONS = ['SGR effect-group model of DESIGN 2.1', 'values with ill-formed *valid* settings or ESC in text are grey']
MIN_EVAL = 200
CASES = {'quick': 600, 'thorough': 9000}
WEIGHTS = {'apply': 12, 'remove': 4, 'simplify': 3, 'query': 0.2, 'find_settings': 0.2, 'settings_at': 0.2}


def valid_rows(L, o):
    """per-character texts restricted to settings whose .valid is True"""
    rows = []
    for objs in o.objs:
        rows.append([str(s) for s in objs if s.valid])
    return rows


class SimplifyContract(Contract):
    prop = PROP
    methods = {('*', 'simplify')}

    def pre(self, call):
        o = O.observe(call.recv)
        return o

    def post(self, call, o, result, exc):
        ctx = self.ctx
        L = self.L
        if exc is not None:
            return
        v = call.recv if call.cls == 'AnsiString' else result
        if O.has_esc(o.text):
            ctx.grey('esc-in-text')
            return
        rows = valid_rows(L, o)
        pre_sty = []
        for r in rows:
            st, grey = M.reduce_settings(r)
            if grey:
                # the style a terminal would show is debatable, so it is not compared; what simplify() promises about
                # its own result (text kept, parsable, no invalid setting left, idempotent, fixed point) still is
                ctx.grey('illformed-setting:' + grey)
                ctx.sig('simplify:illformed-judged-without-style')
                pre_sty = None
                break
            pre_sty.append(M.freeze(st))
        post = O.observe(v)
        ctx.ev('simplify')
        if any(len(r) >= 2 for r in o.texts):
            ctx.nontriv(('simplify', o.key()))
        ctx.sig('simplify:invalid-present' if any(len(a) != len(b) for a, b in zip(rows, o.texts)) else 'simplify:all-valid')
        if len(ctx.samples) < 6:
            ctx.sample({'simplify': o.describe(), 'after': post.describe()})
        det = {'before': o.describe(), 'after': post.describe()}
        if post.text != o.text:
            ctx.violation('simplify-text', det, call, mech='simplify-text')
            return
        post_sty, g2 = O.styles(post)
        if g2:
            ctx.violation('simplify-left-illformed', det, call, mech='simplify-illformed')
            return
        for i, (a, b) in enumerate(zip(pre_sty or [], post_sty)):
            if a != b:
                d = dict(det)
                d.update({'index': i, 'expected': dict(a), 'got': dict(b)})
                ctx.violation('simplify-style', d, call, mech='simplify-style')
                return
        if not v.is_formatting_parsable():
            ctx.violation('simplify-not-parsable', det, call, mech='simplify-not-parsable')
        for objs in post.objs:
            for s in objs:
                if not s.valid:
                    ctx.violation('simplify-invalid-left', det, call, mech='simplify-invalid-left')
                    return
        # idempotence and fixed point, on copies
        c = L.AnsiString(v)
        s1 = str(c)
        c.simplify()
        s2 = str(c)
        ctx.ev('simplify-idempotent')
        if s1 != s2:
            d = dict(det)
            d.update({'first': s1, 'second': s2})
            ctx.violation('simplify-not-idempotent', d, call, mech='simplify-idempotent')
        s3 = str(L.AnsiString(s1))
        ctx.ev('simplify-fixed-point')
        if s3 != s1:
            d = dict(det)
            d.update({'rendered': s1, 'reparsed_rendered': s3})
            ctx.violation('simplify-not-fixed-point', d, call, mech='simplify-fixed-point')


def contracts(ctx, mon):
    return [SimplifyContract(ctx)]


def roundtrip_probe(ctx, mon, v):
    L = ctx.L
    o = safe_obs(mon, v)
    if o is None:
        return
    if O.has_esc(o.text):
        ctx.grey('esc-in-text')
        return
    sty, grey = O.styles(o)
    if grey:
        ctx.grey('illformed-setting:' + grey)
        return
    with mon.quiet():
        try:
            out = str(v)
            back = L.AnsiString(out)
            ob = O.observe(back)
        except Exception as e:
            ctx.violation('roundtrip-raised', {'value': o.describe(), 'error': repr(e)}, mech='roundtrip-raised')
            return
    ctx.ev('roundtrip')
    if any(len(r) >= 2 for r in o.texts):
        ctx.nontriv(('rt', o.key()))
    if len(ctx.samples) < 10:
        ctx.sample({'value': o.describe(), 'rendered': out})
    det = {'value': o.describe(), 'rendered': out, 'reparsed': ob.describe()}
    if ob.text != o.text:
        ctx.violation('roundtrip-text', det, mech='roundtrip-text')
        return
    bsty, g2 = O.styles(ob)
    for i, (a, b) in enumerate(zip(sty, bsty)):
        if a != b:
            det.update({'index': i, 'expected': dict(a), 'got': dict(b)})
            ctx.violation('roundtrip-style', det, mech='roundtrip-style')
            return


def simplify_again(ctx, mon, rng, v):
    """one object: simplify(), then a change that does not go through apply/remove_formatting (+=, in-place replace
    by a formatted value, assign_str, in-place padding / clipping), then simplify() again - the second call is judged
    like the first (a library that remembers "already simplified" must notice every kind of change)"""
    L = ctx.L
    with mon.quiet():
        try:
            c = v.copy()
        except Exception:
            return
    try:
        c.simplify()
        k = rng.randrange(7)
        with mon.quiet():
            piece = L.AnsiString(rng.choice(['cd', 'x', ' yz']), *rng.choice(
                [['22'], ['bold', '[38'], ['[1;31'], ['red', 'bg_blue'], [L.AnsiSetting('bad code')], ['39', 'italic'], []]))
            if k == 0:
                c += piece
            elif k == 1:
                c.replace(c.base_str[:1] or 'a', piece, inplace=True)
            elif k == 2:
                c.assign_str(c.base_str + 'zz')
            elif k == 3:
                c.ljust(len(c.base_str) + 2, inplace=True)
                c += piece
            elif k == 4:
                c.clip(0, max(1, len(c.base_str) - 1), inplace=True)
                c += piece
            elif k == 5:
                c += piece
                c.upper(inplace=True)
            else:
                c = L.AnsiString.join(c, piece)
                c.simplify()
                c += piece
        ctx.sig('simplify-again:%d' % k)
        c.simplify()
    except Exception:
        ctx.aborted['simplify-again-raised'] += 1


# settings which are accepted but cannot be read back as a graphic rendition: incomplete or out-of-range extended-
# colour groups given as *integers* (flat, tuple, nested), verbatim texts written with non-ASCII digits / spaces
ODD_SETTINGS = [[38, 5], (48, 2, 1), [58], [[38], [5]], [38, 5, 300], [58, 2, 1, 2], (38, 2), [48, 5],
                '[\u0663', '[\uff11', '[38;5;\u0663', '[1;\u0663', '[\u0663;1', '[\u00b2', '[1\u00a0', '[\u0967\u0968',
                '[38;5', '[+1', '[1;;\uff13']


def odd_settings_case(ctx, mon, rng, exhaustive=False):
    """round trip and simplify() of values holding such a setting: alone on a range (it then renders as a sequence of
    its own), under/over a well-formed setting, at the start, up to the end; simplify() twice on the same object and
    once on a fresh object holding the same setting (what an earlier call was told must not matter)"""
    L = ctx.L
    picks = ODD_SETTINGS if exhaustive else [rng.choice(ODD_SETTINGS)]
    for st in picks:
        for layout in range(4):
            with mon.quiet():
                try:
                    v = L.AnsiString('hello world')
                    if layout == 1:
                        v.apply_formatting('bold', 0, 8)
                    if layout == 3:
                        v.apply_formatting('red', 2, None)
                    v.apply_formatting(L.AnsiSetting(st[1:]) if isinstance(st, str) and layout == 2 else st,
                                       *[(6, 11), (6, 9), (0, 4), (3, 7)][layout])
                    if layout == 2:
                        v.apply_formatting('underline', 2, 6, topmost=False)
                except Exception:
                    ctx.aborted['odd-setting-rejected'] += 1
                    continue
            ctx.ev('odd-setting-value')
            ctx.sig('odd-setting:%s:%d' % (type(st).__name__, layout))
            roundtrip_probe(ctx, mon, v)
            try:
                v.simplify()
                v.simplify()
                L.AnsiStr(v).simplify()
            except Exception:
                ctx.aborted['simplify-raised'] += 1


def drive(ctx, mon, tier, only_case=None):
    L = ctx.L
    sz = tier_sizes(tier)

    def body(rng, ex, case):
        if case == 0:
            with mon.quiet():
                vals = list(transition_values(L, rng, ctx.shard, ctx.extra.get('nshards', 1)))
                vals += list(stack_values(L, rng, ctx.shard, ctx.extra.get('nshards', 1)))
            ctx.extra['n_transition_values'] = len(vals)
            for v in vals:
                roundtrip_probe(ctx, mon, v)
                try:
                    v.simplify()
                except Exception:
                    ctx.aborted['simplify-raised'] += 1
            return
        if case == 1:
            m = small_scope_on(ctx, tier)
            with mon.quiet():
                vals = [v for v, _ in small_scope_values(L, m, ctx.shard, ctx.extra.get('nshards', 1))]
            ctx.extra['n_small_scope_values'] = len(vals)
            for v in vals:
                roundtrip_probe(ctx, mon, v)
                v.simplify()
            return
        if case == 2:
            def visit(v, p):
                roundtrip_probe(ctx, mon, v)
                v.simplify()
            trie_case(ctx, mon, tier, 2, 3, visit=visit, cls=L.AnsiStr if ctx.shard % 4 == 3 else None)
            return
        if case == 3 or rng.random() < 0.06:
            odd_settings_case(ctx, mon, rng, exhaustive=(case == 3))
            if case == 3:
                return
        profile = rng.choice(['wf', 'mixed', 'hostile'])
        history(L, rng, ex, rng.randint(1, sz['nops']), sz['maxlen'], profile, WEIGHTS)
        vals = ansi_values(L, ex)
        for v in vals:
            roundtrip_probe(ctx, mon, v)
        for v in vals[-6:]:
            # simplify on a copy so that the pool stays as generated (the contract judges the call)
            try:
                if isinstance(v, L.AnsiString):
                    with mon.quiet():
                        c = v.copy()
                    c.simplify()
                else:
                    v.simplify()
            except Exception:
                ctx.aborted['simplify-raised'] += 1
        for v in vals[-3:]:
            if isinstance(v, L.AnsiString):
                simplify_again(ctx, mon, rng, v)

    run_cases(ctx, mon, CASES[tier], body, only_case=only_case)
