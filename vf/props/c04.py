"""C04 - slicing returns exactly the selected characters and styles, closed at the end."""
from .. import obs as O
from ..gen import gen_bound, gen_range
from .common import trie_case, Contract, ansi_values, history, run_cases, tier_sizes, safe_obs, is_ansi, esc_seam_values, small_scope_values, small_scope_on

PROP = 'C04'
RULE = ('case = one s[i], s[i:j], clip(a,b) or iteration on a reachable value, bounds aimed at change points '
        '(at, +-1), 0, len, len+-1, -len, -len-1, None and far outside; result compared per character '
        '(precedence-equivalence) with the source at Python\'s slice offsets; closure probes append plain and '
        'styled text to the result.  Non-trivial: the source has a change point inside or at a bound of the '
        'selection; distinct = distinct (source text+settings, index/slice).')
ASSUMPTIONS = ['slice.indices and str slicing are the reference for bounds',
               'precedence-equivalence (DESIGN 2.2) is the comparison for "same settings, same precedence"',
               'for base texts containing ESC only the text clause is judged']
MIN_EVAL = 500
CASES = {'quick': 700, 'thorough': 9600}
WEIGHTS = {'apply': 12, 'getitem': 10, 'clip': 4, 'iter': 0.6, 'remove': 4, 'query': 0.1, 'find_settings': 0.1,
           'settings_at': 0.1}


def rel(b, n, cps):
    if b is None:
        return 'None'
    if b < -n:
        return '<-len'
    if b < 0:
        b += n
        tag = 'neg:'
    else:
        tag = ''
    if b > n:
        return tag + '>len'
    if b == n:
        return tag + 'len'
    if b == 0:
        return tag + '0'
    if b in cps:
        return tag + 'at-cp'
    if b - 1 in cps:
        return tag + 'cp+1'
    if b + 1 in cps:
        return tag + 'cp-1'
    return tag + 'between'


class SliceContract(Contract):
    prop = PROP
    methods = {('*', '__getitem__'), ('*', 'clip')}

    def pre(self, call):
        return O.observe(call.recv)

    def post(self, call, o, result, exc):
        ctx = self.ctx
        L = self.L
        n = len(o.text)
        esc = O.has_esc(o.text)
        if call.name == '__getitem__':
            val = call.arg(0, 'val')
            kind = 'int' if isinstance(val, int) and not isinstance(val, bool) else 'slice'
            if kind == 'slice' and not isinstance(val, slice):
                return
            if kind == 'slice' and val.step not in (None, 1):
                return
            for b in ((val,) if kind == 'int' else (val.start, val.stop)):
                if b is not None and not isinstance(b, int):
                    return
        else:
            kind = 'clip'
            val = slice(call.arg(0, 'start'), call.arg(1, 'end'))
            for b in (val.start, val.stop):
                if b is not None and not isinstance(b, int):
                    return
        det = {'source': o.describe(), 'index': repr(val)}
        if kind == 'int':
            valid = -n <= val < n
            if not valid:
                return          # C09 judges what is raised
            a = val % n
            b = a + 1
        else:
            a, b, _ = val.indices(n)
            if b < a:
                b = a
        if exc is not None:
            ctx.ev('selection')
            ctx.violation('raised', dict(det, error=repr(exc)), call, mech='slice-raised')
            return
        if not is_ansi(L, result):
            ctx.ev('selection')
            ctx.violation('result-type', dict(det, got=repr(type(result))), call, mech='slice-type')
            return
        r = O.observe(result)
        ctx.ev('selection')
        cps = set(o.change_points())
        inside = any(a <= c <= b for c in cps)
        if inside and b > a:
            ctx.nontriv((o.key(), kind, repr(val)))
        if kind == 'int':
            ctx.sig('int:%s' % ('neg' if val < 0 else 'pos'))
        else:
            ctx.sig('%s:%s/%s%s' % (kind, rel(val.start, n, cps), rel(val.stop, n, cps), ':empty' if b == a else ''))
        if len(ctx.samples) < 10 and inside:
            ctx.sample({'source': o.describe(), 'index': repr(val), 'result': r.describe()})
        det['result'] = r.describe()
        exp_text = o.text[a:b]
        if r.text != exp_text:
            ctx.violation('text', dict(det, expected_text=exp_text), call,
                          mech='int-index-text' if kind == 'int' else 'slice-text')
            return
        if esc:
            # base texts containing ESC: only the text clause is judged (the settings clauses are grey)
            ctx.grey('esc-in-text:settings-clauses')
            return
        d = O.first_diff_equiv(o.texts[a:b], r.texts)
        if d is not None:
            mech = 'slice-settings'
            if kind == 'int' and val < 0:
                mech = 'negative-int-index-settings'
            ctx.violation('settings', dict(det, at=d, expected=o.texts[a + d] if a + d < n else None,
                                           got=r.texts[d] if d < len(r.texts) else None), call, mech=mech)
            return
        closure_probe(ctx, L, result, det, call)


def closure_probe(ctx, L, result, det, call):
    """text appended to a slice keeps only its own style"""
    base = L.AnsiString(result) if not isinstance(result, L.AnsiString) else result
    n = len(base.base_str)
    ctx.ev('closure')
    try:
        p1 = base + 'Z'
        p2 = base + L.AnsiString('Z', 'italic')
        s1 = [str(s) for s in p1.ansi_settings_at(n)]
        s2 = [str(s) for s in p2.ansi_settings_at(n)]
    except Exception as e:
        ctx.violation('closure-raised', dict(det, error=repr(e)), call, mech='slice-closure-raised')
        return
    if s1 != [] or s2 != ['3']:
        ctx.violation('style-open-past-end', dict(det, appended_plain=s1, appended_italic=s2), call,
                      mech='slice-not-closed')


def contracts(ctx, mon):
    return [SliceContract(ctx)]


def iteration_probe(ctx, mon, v):
    L = ctx.L
    o = safe_obs(mon, v)
    if o is None or O.has_esc(o.text):
        return
    with mon.quiet():
        try:
            items = list(v)
        except Exception as e:
            ctx.violation('iteration-raised', {'source': o.describe(), 'error': repr(e)}, mech='iter-raised')
            return
        ctx.ev('iteration')
        if len(items) != len(o.text):
            ctx.violation('iteration-length', {'source': o.describe(), 'n_items': len(items)}, mech='iter-length')
            return
        for k, it in enumerate(items):
            if not is_ansi(L, it):
                ctx.violation('iteration-type', {'source': o.describe(), 'k': k}, mech='iter-type')
                return
            io = O.observe(it)
            if io.text != o.text[k] or len(io.texts) != 1 or not O.prec_equiv(io.texts[0], o.texts[k]):
                ctx.violation('iteration-item', {'source': o.describe(), 'k': k, 'item': io.describe()},
                              mech='iter-item')
                return
        # second pass: every item is looked at when it is yielded and then edited in place by the loop body (items
        # are values of their own: what the body does to one must not show in the next, nor in the source)
        if isinstance(v, L.AnsiString) and o.text:
            how = len(o.text) % 4
            try:
                for k, it in enumerate(v):
                    io = O.observe(it)
                    ctx.ev('iteration-item-edited-by-loop-body')
                    if io.text != o.text[k] or len(io.texts) != 1 or not O.prec_equiv(io.texts[0], o.texts[k]):
                        ctx.violation('iteration-item-after-editing-earlier-items',
                                      {'source': o.describe(), 'k': k, 'item': io.describe(), 'edit': how},
                                      mech='iter-item-edited')
                        return
                    if how == 0:
                        it.apply_formatting('underline')
                    elif how == 1:
                        it += L.AnsiString('-', 'blue')
                    elif how == 2:
                        it.clear_formatting()
                    else:
                        it.ljust(3, inplace=True)
            except Exception as e:
                ctx.violation('iteration-raised', {'source': o.describe(), 'error': repr(e), 'edit': how}, mech='iter-raised')
                return
            o2 = O.observe(v)
            if o2.text != o.text or O.first_diff_exact(o.texts, o2.texts) is not None:
                ctx.violation('iteration-edits-reach-source', {'source': o.describe(), 'after': o2.describe(), 'edit': how},
                              mech='iter-source-changed')


def drive(ctx, mon, tier, only_case=None):
    L = ctx.L
    sz = tier_sizes(tier)

    def body(rng, ex, case):
        if case == 0:
            # bounded-exhaustive part: every small-scope value x every slice / index with bounds in -6..6 or None
            m = small_scope_on(ctx, tier)
            bounds = [None] + list(range(-6, 7))
            nv = 0
            for v, _ in small_scope_values(L, m, ctx.shard, ctx.extra.get('nshards', 1),
                                            cls=L.AnsiStr if ctx.shard % 4 == 3 else None):
                nv += 1
                for a in bounds:
                    for b in bounds:
                        v[a:b]
                for i in range(-6, 7):
                    try:
                        v[i]
                    except IndexError:
                        pass
                iteration_probe(ctx, mon, v)
            ctx.extra['n_small_scope_values'] = nv
            return
        if case == 1:
            tb = [None, -4, -3, -2, -1, 0, 1, 2, 3, 4] if tier == 'thorough' else [None, -2, -1, 0, 1, 2, 3]

            def visit(v, p):
                for a in tb:
                    for b in tb:
                        v[a:b]
                for i in range(-3, 3):
                    v[i]
                if len(p) % 2:
                    iteration_probe(ctx, mon, v)
            trie_case(ctx, mon, tier, 2, 3, visit=visit, cls=L.AnsiStr if ctx.shard % 4 == 3 else None)
            return
        profile = 'mixed' if rng.random() < 0.3 else 'wf'
        history(L, rng, ex, rng.randint(1, sz['nops']), sz['maxlen'], profile, WEIGHTS, esc=rng.random() < 0.12)
        vals = ansi_values(L, ex)
        if rng.random() < 0.2:
            with mon.quiet():
                vals = vals + esc_seam_values(L, rng, 2)
        for v in vals[-8:]:
            o = safe_obs(mon, v)
            if o is None:
                continue
            n = len(o.text)
            cps = o.change_points()
            for _ in range(6):
                a, b = gen_range(rng, n, cps)
                try:
                    r = rng.random()
                    if r < 0.6:
                        v[a:b]
                    elif r < 0.8:
                        v.clip(a, b)
                    else:
                        i = gen_bound(rng, n, cps, none_ok=False)
                        v[i]
                except Exception:
                    pass
            if rng.random() < 0.3:
                iteration_probe(ctx, mon, v)

    run_cases(ctx, mon, CASES[tier], body, only_case=only_case)
