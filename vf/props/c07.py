"""C07 - remove_formatting removes exactly the requested settings, only inside the range."""
from .. import obs as O
from .common import (trie_case, Contract, ansi_values, history, run_cases, tier_sizes, safe_obs, norm_range, settings_texts,
                     GROUP_CODES, small_scope_values, small_scope_on, ss_ranges, SS_CODES)
from ..gen import gen_range, gen_settings

PROP = 'C07'
RULE = ('case = one remove_formatting(settings|None, start, end) / clear_formatting() on a reachable value; '
        'selections present / absent / hidden under a conflicting setting / several equal instances / None; '
        'ranges cutting through settings that begin inside and continue past the end.  Checked per character: '
        'text, inside = before minus every setting equal to a given one (precedence-equivalent), outside '
        'precedence-equivalent, empty range/settings no-op, clear_formatting leaves nothing.  Non-trivial: '
        'something is removed from a value with >= 2 settings on some character; distinct = distinct '
        '(value, selection, range).')
ASSUMPTIONS = ['precedence-equivalence (DESIGN 2.2)',
               'the given settings are read as the texts AnsiString(\'x\').apply_formatting(settings) reports']
MIN_EVAL = 400
CASES = {'quick': 700, 'thorough': 9600}
WEIGHTS = {'apply': 14, 'remove': 12, 'clear_formatting': 1, 'getitem': 3, 'add': 3, 'pad': 2, 'query': 0.1,
           'find_settings': 0.1, 'settings_at': 0.1, 'unformat_matching': 2}


class RemoveContract(Contract):
    prop = PROP
    methods = {('*', 'remove_formatting'), ('*', 'clear_formatting')}

    def pre(self, call):
        o = O.observe(call.recv)
        return (o, self.L.AnsiString(call.recv))

    def post(self, call, st, result, exc):
        ctx = self.ctx
        L = self.L
        if exc is not None:
            return
        o, precopy = st
        v = call.recv if call.cls == 'AnsiString' else result
        p = O.observe(v)
        n = len(o.text)
        if O.has_esc(o.text):
            ctx.grey('esc-in-text')
            return
        if call.name == 'clear_formatting':
            ctx.ev('clear_formatting')
            if p.text != o.text or p.styled():
                ctx.violation('clear_formatting', {'before': o.describe(), 'after': p.describe()}, call,
                              mech='clear-formatting')
            return
        settings = call.arg(0, 'settings', None)
        start = call.arg(1, 'start', 0)
        end = call.arg(2, 'end', None)
        if not isinstance(start, int) or not (end is None or isinstance(end, int)):
            return
        a, b = norm_range(start, end, n)
        if settings is None:
            G = None
        elif not settings and not (isinstance(settings, int) and not isinstance(settings, bool)):
            G = []
        else:
            G = settings_texts(L, ctx.mon, settings)
            if G is None:
                return
        det = {'before': o.describe(), 'after': p.describe(), 'settings': G, 'range': [start, end], 'norm': [a, b]}
        ctx.ev('remove')
        if p.text != o.text:
            ctx.violation('text-changed', det, call, mech='remove-text')
            return
        is_int = isinstance(settings, int) and not isinstance(settings, bool)
        noop_declared = (b <= a) or (settings is not None and not settings and not is_int)
        if noop_declared:
            ctx.sig('noop')
            same = O.first_diff_exact(o.texts, p.texts) is None
            eq = (L.AnsiString(v) == precopy)
            if not same or not eq:
                ctx.violation('noop-changed', dict(det, eq=eq), call, mech='remove-noop-changed')
            return
        removed_any = False
        for i in range(n):
            if a <= i < b:
                exp = [t for t in o.texts[i] if not (G is None or t in G)]
                if len(exp) != len(o.texts[i]):
                    removed_any = True
                if not O.prec_equiv(exp, p.texts[i]):
                    ctx.violation('inside', dict(det, index=i, expected=exp, got=p.texts[i]), call,
                                  mech='remove-inside')
                    return
            else:
                if not O.prec_equiv(o.texts[i], p.texts[i]):
                    mech = 'remove-outside-after' if i >= b else 'remove-outside-before'
                    ctx.violation('outside', dict(det, index=i, expected=o.texts[i], got=p.texts[i]), call, mech=mech)
                    return
        spans_end = b < n and any(x in o.ids(b - 1) for x in o.ids(b)) if b > 0 and b < n else False
        ctx.sig('sel=%s:removed=%s:continues-past-end=%s' % ('None' if G is None else 'some', removed_any, spans_end))
        if removed_any and any(len(r) >= 2 for r in o.texts):
            ctx.nontriv((o.key(), None if G is None else tuple(G), a, b))
            if len(ctx.samples) < 10:
                ctx.sample(det)


def contracts(ctx, mon):
    ctx.mon = mon
    return [RemoveContract(ctx)]


def remove_workshop(ctx, mon, rng, L):
    """long overlapping settings from one or two groups, then several remove_formatting calls (and non-topmost
    applies) whose bounds come from a tiny set of indices, so that range ends coincide with earlier range ends,
    starts and restart points; the settings argument is sometimes one list object reused with changed contents"""
    groups = rng.sample(sorted(GROUP_CODES), rng.choice([1, 2, 2]))
    pool = []
    for g in groups:
        ap, cl = GROUP_CODES[g]
        pool += ap[:2] + [cl]
    n = rng.choice([8, 10, 12])
    idx = sorted(rng.sample(range(0, n + 1), rng.choice([2, 3, 3, 4])))
    with mon.quiet():
        s = L.AnsiString('abcdefghijkl'[:n])
        for _ in range(rng.choice([2, 3, 4])):
            a = rng.choice([0, 0, 1, idx[0]])
            b = rng.choice([n, n, None, n - 2, idx[-1]])
            s.apply_formatting(rng.choice(pool), a, b, topmost=rng.random() < 0.8)
        if rng.random() < 0.2:
            s = L.AnsiStr(s)
    shared = []
    ctx.sig('remove-workshop')
    for _ in range(rng.randint(2, 6)):
        a, b = rng.choice(idx), rng.choice(idx + [None])
        if b is not None and a > b:
            a, b = b, a
        try:
            r = rng.random()
            if r < 0.2 and isinstance(s, L.AnsiString):
                with mon.quiet():
                    s.apply_formatting(rng.choice(pool), a, b, topmost=False)
                continue
            if r < 0.35:
                sel = None
            elif r < 0.6:
                # the same list object again, with other contents than last time
                shared[:] = ['[' + c for c in rng.sample(pool, rng.choice([1, 1, 2]))]
                sel = shared
            else:
                sel = '[' + rng.choice(pool)
            if isinstance(s, L.AnsiString):
                s.remove_formatting(sel, a, b)
            else:
                s = s.remove_formatting(sel, a, b)
        except Exception:
            pass


def drive(ctx, mon, tier, only_case=None):
    L = ctx.L
    sz = tier_sizes(tier)

    def body(rng, ex, case):
        if case == 0:
            # bounded-exhaustive part: every small-scope value x remove_formatting(None | each code, every range)
            m = small_scope_on(ctx, tier)
            nv = 0
            for v, _ in small_scope_values(L, m, ctx.shard, ctx.extra.get('nshards', 1)):
                nv += 1
                for sel in [None] + SS_CODES:
                    for a, b in ss_ranges():
                        with mon.quiet():
                            t = L.AnsiString(v)
                        t.remove_formatting(sel, a, b)
                if nv <= 40:
                    # the integer 0 (RESET) given directly selects the settings equal to '0'
                    with mon.quiet():
                        t = L.AnsiString(v)
                        t.apply_formatting('[0', 1, 3, topmost=bool(nv % 2))
                        if nv % 3 == 0:
                            t = L.AnsiStr(t)
                    t.remove_formatting(0, 0, 4)
                    with mon.quiet():
                        t = L.AnsiString(v)
                        t.apply_formatting(0, 0, 4, topmost=False)
                    t.remove_formatting(0, 2, None)
            ctx.extra['n_small_scope_values'] = nv
            return
        if case == 1:
            # every history of apply/remove operations up to the tier's depth: each remove is judged where it happens
            trie_case(ctx, mon, tier, 3, 4, judged_walk=True)
            return
        profile = rng.choice(['wf', 'wf', 'mixed', 'hostile'])
        history(L, rng, ex, rng.randint(2, sz['nops']), sz['maxlen'], profile, WEIGHTS)
        for _ in range(4):
            remove_workshop(ctx, mon, rng, L)
        for v in ansi_values(L, ex)[-6:]:
            o = safe_obs(mon, v)
            if o is None:
                continue
            present = sorted(o.all_texts())
            for _ in range(3):
                a, b = gen_range(rng, len(o.text), o.change_points())
                r = rng.random()
                if r < 0.3:
                    s = None
                elif r < 0.8 and present:
                    s = ['[' + t for t in rng.sample(present, min(len(present), rng.choice([1, 1, 2])))]
                else:
                    s = ex.dec(gen_settings(rng, profile))
                try:
                    with mon.quiet():
                        tgt = L.AnsiString(v) if rng.random() < 0.7 else L.AnsiStr(v)
                    tgt.remove_formatting(s, a if a is not None else 0, b)
                except Exception:
                    pass
            if rng.random() < 0.2:
                with mon.quiet():
                    tgt = L.AnsiString(v) if rng.random() < 0.6 else L.AnsiStr(v)
                tgt.clear_formatting()

    run_cases(ctx, mon, CASES[tier], body, only_case=only_case)
