"""C02 - parsing ANSI-coded input preserves text and appearance."""
import re

from .. import obs as O
from .. import sgr_model as M
from ..gen import gen_ansi_input, gen_text
from .common import Contract, ansi_values, history, is_plain_str, run_cases, tier_sizes

PROP = 'C02'
RULE = ('case = one construction AnsiString(str)/AnsiStr(str)/set_ansi_str(str) from a generated ANSI-coded '
        'string (grammar: text interleaved with SGR sequences of 0..8 codes - known, unknown, clear, reset, '
        '38/48/58 groups at any position, incomplete groups at the end - non-SGR CSI sequences, lone ESC, '
        'unterminated tails) or from the library\'s own rendering of a reachable value; compared with the '
        'reference tokenizer + SGR terminal; a quarter of the AnsiString constructions are followed by 1-3 in-place '
        'edits of the new object on/near its change points and a second construction from the same text (what an '
        'input parses to must not depend on earlier objects).  Non-trivial: >= 1 SGR sequence followed by text; distinct = '
        'distinct input string.')
ASSUMPTIONS = ['SGR sequence = ESC [ [0-9;]* m; other CSI sequences are text',
               'grey (not judged): empty/non-decimal tokens, colour args > 255, 38/48/58 + bad selector, '
               'CSI bodies with bytes outside 0x30-0x3f / private-parameter m sequences']
MIN_EVAL = 300
CASES = {'quick': 5000, 'thorough': 54000}

_DIG = re.compile(r'[0-9;]*\Z')


def ref_parse(s):
    """reference reading of an ANSI-coded string: (text, per-char frozen state, grey, info)"""
    n = len(s)
    i = 0
    text = []
    states = []
    st = {}
    grey = None
    info = {'sgr': 0, 'sgr_then_text': False, 'pos_classes': set(), 'kept_csi': 0, 'multi_at_index': 0}
    pending_sgr = False
    run = 0
    while i < n:
        if s.startswith('\x1b[', i):
            j = i + 2
            while j < n and 0x30 <= ord(s[j]) <= 0x3f:
                j += 1
            k = j
            while k < n and 0x20 <= ord(s[k]) <= 0x2f:
                k += 1
            if k < n and 0x40 <= ord(s[k]) <= 0x7e:
                final = s[k]
                body = s[i + 2:k]
                if final == 'm':
                    if k == j and _DIG.match(body):
                        p = M.parse_params(body)
                        if p.grey and grey is None:
                            grey = p.grey
                        # (an empty parameter means 0 = reset: parse_params already reads it that way)
                        M.apply_ops(p.ops, st)
                        info['sgr'] += 1
                        pending_sgr = True
                        run += 1
                        if run > 1:
                            info['multi_at_index'] += 1
                        toks = body.split(';') if body else []
                        for ti, t in enumerate(toks):
                            if t in ('38', '48', '58'):
                                info['pos_classes'].add('first' if ti == 0 else ('last' if ti >= len(toks) - 5 else 'middle'))
                        if p.incomplete_tail:
                            info['pos_classes'].add('incomplete-tail')
                        i = k + 1
                        continue
                    if ' ' in body and re.fullmatch('[0-9; ]*', body):
                        if grey is None:
                            grey = 'whitespace-padded-sgr-parameters'
                        i = k + 1
                        continue
                    # private-parameter / intermediate-byte sequence ending in m (e.g. ESC[>4;2m): not a graphic
                    # rendition - another control function, which stays in the text verbatim
                    for ch in s[i:k + 1]:
                        text.append(ch)
                        states.append(M.freeze(st))
                    info['kept_csi'] += 1
                    if pending_sgr:
                        info['sgr_then_text'] = True
                    run = 0
                    i = k + 1
                    continue
                # a complete non-SGR control sequence: stays in the text verbatim
                for ch in s[i:k + 1]:
                    text.append(ch)
                    states.append(M.freeze(st))
                info['kept_csi'] += 1
                if pending_sgr:
                    info['sgr_then_text'] = True
                run = 0
                i = k + 1
                continue
            if k >= n:
                # unterminated at the end of the string: stays verbatim
                for ch in s[i:]:
                    text.append(ch)
                    states.append(M.freeze(st))
                if pending_sgr:
                    info['sgr_then_text'] = True
                i = n
                continue
            if 0x20 <= ord(s[k]) <= 0x3f:
                # a parameter byte behind an intermediate byte (`ESC[ 1m`): malformed for a terminal, read through
                # int() by the library - debatable, not judged
                if grey is None:
                    grey = 'csi-parameter-after-intermediate'
                return None, None, grey, info
            # a character that can neither continue nor end the sequence (another ESC, a C0 control, DEL, non-ASCII):
            # nothing was recognised, the characters so far stay in the text and the offending one is read again
            for ch in s[i:k]:
                text.append(ch)
                states.append(M.freeze(st))
            info['kept_csi'] += 1
            info['aborted_csi'] = info.get('aborted_csi', 0) + 1
            if pending_sgr:
                info['sgr_then_text'] = True
            run = 0
            i = k
            continue
        text.append(s[i])
        states.append(M.freeze(st))
        if pending_sgr:
            info['sgr_then_text'] = True
        run = 0
        i += 1
    return ''.join(text), states, grey, info


class ParseContract(Contract):
    prop = PROP
    methods = {('AnsiString', '__init__'), ('AnsiStr', '__new__'), ('AnsiString', 'set_ansi_str')}

    def pre(self, call):
        L = self.L
        if not call.args and 's' not in call.kwargs:
            return None
        s = call.arg(0, 's')
        if call.name == 'set_ansi_str' and isinstance(s, L.AnsiStr):
            s = str.__str__(s)      # an AnsiStr is a str: what is parsed is its payload (= its rendering, C13)
        if not is_plain_str(L, s):
            return None
        if call.name != 'set_ansi_str' and (len(call.args) > 1):
            return None     # settings given: C06/C13 territory
        return s

    def post(self, call, s, result, exc):
        ctx = self.ctx
        if s is None:
            return
        if exc is not None:
            # "constructing ... yields ...": for a str argument the constructor has to return, whatever the
            # parameter strings look like (this clause is judged for grey inputs too)
            ctx.ev('parse-returns')
            ctx.violation('parse-raised', {'input': s, 'error': repr(exc)[:300]}, call, mech='parse-raised')
            return
        v = result if call.name == '__new__' else call.recv
        check_parse(ctx, s, v, call)


def check_parse(ctx, s, v, call=None):
    text, states, grey, info = ref_parse(s)
    if grey:
        ctx.grey(grey)
        return
    o = O.observe(v)
    ctx.ev('parse')
    if '\x1b' not in s:
        ctx.ev('esc-free-input')
        if o.text != s or o.styled():
            ctx.violation('esc-free-input-changed', {'input': s, 'got': o.describe()}, call, mech='esc-free-input')
        return
    for pc in info['pos_classes']:
        ctx.sig('colour-group:' + pc)
    ctx.sig('sgr-per-index>1' if info['multi_at_index'] else 'sgr-per-index<=1')
    if info['kept_csi']:
        ctx.sig('non-sgr-csi-kept')
    if info['sgr'] and info['sgr_then_text']:
        ctx.nontriv(s)
    ctx.sample({'input': s, 'text': text})
    if o.text != text:
        ctx.violation('text', {'input': s, 'expected_text': text, 'got_text': o.text}, call, mech='parse-text')
        return
    sty, g2 = O.styles(o)
    if g2:
        ctx.violation('illformed-setting-from-parse', {'input': s, 'got': o.describe(), 'why': g2}, call,
                      mech='parse-illformed-setting')
        return
    for i, (e, g) in enumerate(zip(states, sty)):
        if e != g:
            ctx.violation('style', {'input': s, 'index': i, 'expected': dict(e), 'reported': dict(g),
                                    'got': o.describe()}, call, mech='parse-style')
            return


def contracts(ctx, mon):
    return [ParseContract(ctx)]


def drive(ctx, mon, tier, only_case=None):
    L = ctx.L
    sz = tier_sizes(tier)

    def body(rng, ex, case):
        if case == 0:
            import itertools
            pieces = ['a', 'b ', '\x1b[1m', '\x1b[31m', '\x1b[m', '\x1b[38;5;1m', '\x1b[22;39m', '\x1b[2J', '\x1b[1;34;4m', '\x1b[0;3m']
            depth = 4 if tier == 'thorough' else 3
            nsh = ctx.extra.get('nshards', 1)
            k = 0
            n_in = 0
            for d in range(1, depth + 1):
                for combo in itertools.product(pieces, repeat=d):
                    k += 1
                    if k % nsh != ctx.shard:
                        continue
                    n_in += 1
                    (L.AnsiString if k % 3 else L.AnsiStr)(''.join(combo))
            ctx.extra['n_small_scope_inputs'] = n_in
            ctx.extra['small_scope'] = 'exhaustive over concatenations of up to %d pieces from %r' % (depth, pieces)
            return
        r = rng.random()
        if r < 0.75:
            s = gen_ansi_input(rng, sz['maxlen'])
            if rng.random() < 0.15:
                # the same parameter strings used as *settings* (and parsed with add_erroneous=True) beforehand
                with mon.quiet():
                    for body in re.findall('\x1b\\[([0-9;]*)m', s)[:3]:
                        try:
                            L.parse_graphic_sequence(body, True)
                            L.AnsiString('q', body)
                        except Exception:
                            pass
            cls = L.AnsiString if rng.random() < 0.6 else L.AnsiStr
            ex.run({'m': 'new', 'cls': cls.__name__, 'a': [s]})
            if rng.random() < 0.2:
                ex.run({'m': 'new', 'cls': 'AnsiString', 'a': ['zz', 'bold']})
                ex.run({'m': 'set_ansi_str', 'r': len(ex.pool) - 1, 'a': [s]})
            if rng.random() < 0.25 and cls is L.AnsiString:
                # construct - edit in place - construct again: what an input parses to must not depend on what was
                # done to an earlier object built from the same text (a parse memo that hands out shared tables)
                ri = len(ex.pool) - 1
                first = ex.pool[ri] if 0 <= ri < len(ex.pool) else None
                if isinstance(first, L.AnsiString):
                    n = len(first.base_str)
                    cps = sorted(set([0, n] + [i for i in range(1, n) if first.ansi_settings_at(i) != first.ansi_settings_at(i - 1)]))
                    for _ in range(rng.randint(1, 3)):
                        a = rng.choice(cps) if rng.random() < 0.7 else rng.randint(0, n)
                        b = rng.choice(cps) if rng.random() < 0.7 else rng.randint(0, n)
                        a, b = min(a, b), max(a, b)
                        if rng.random() < 0.6:
                            ex.run({'m': 'apply_formatting', 'r': ri, 'a': [rng.choice(['blink', 'bg_cyan', 'italic', 'red']), a, b],
                                    'k': {'topmost': rng.random() < 0.7}})
                        else:
                            ex.run({'m': 'remove_formatting', 'r': ri, 'a': [None, a, b]})
                    ctx.ev('parse-again-after-edit')
                    ex.run({'m': 'new', 'cls': 'AnsiString' if rng.random() < 0.6 else 'AnsiStr', 'a': [s]})
            if rng.random() < 0.1:
                ex.run({'m': 'new', 'cls': 'AnsiStr', 'a': [s]})
                ex.run({'m': 'new', 'cls': 'AnsiString', 'a': ['q']})
                ex.run({'m': 'set_ansi_str', 'r': len(ex.pool) - 1, 'a': [{'$': len(ex.pool) - 2}]})
        elif r < 0.85:
            s = gen_text(rng, sz['maxlen'])
            ex.run({'m': 'new', 'cls': 'AnsiString' if rng.random() < 0.5 else 'AnsiStr', 'a': [s]})
        else:
            # the renderer's own output language: renderings of reachable values are parsed back
            history(L, rng, ex, rng.randint(1, 6), sz['maxlen'], 'mixed', {'to_str': 3, 'format': 0.3})
            for v in ansi_values(L, ex)[:6]:
                try:
                    out = v.to_str(optimize=rng.random() < 0.5, reset_start=rng.random() < 0.3,
                                   reset_end=rng.random() < 0.7)
                except Exception:
                    continue
                ex.run({'m': 'new', 'cls': 'AnsiString', 'a': [out]})

    run_cases(ctx, mon, CASES[tier], body, only_case=only_case)
