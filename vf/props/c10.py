"""C10 - str-like methods agree with Python's str on the base text."""
from .common import Contract, ansi_values, history, run_cases, tier_sizes, is_ansi, esc_seam_values
from ..gen import gen_bound, gen_text
from ..monitor import StepBudgetExceeded

PROP = 'C10'
STEP_BUDGET = 20000000
RULE = ('case = one call of a query method (len, in, count, find, rfind, index, rindex, endswith, 12 is*) or a '
        'text-transforming method (capitalize ... center) on a reachable value, compared with the same str method '
        'applied to the base text with the same arguments (AnsiString arguments replaced by their base text); '
        'documented deviations encoded once (center = format ^, rpartition miss = (s,\'\',\'\'), expandtabs = '
        'replace(tab, n spaces), zfill = rjust 0, default strip set, empty separator not judged).  If str returns '
        'the library must too.  Non-trivial: the reference result differs from the trivial one (match found / text '
        'changed / True); distinct = distinct (method, text, arguments).')
ASSUMPTIONS = ['CPython 3.12 str is the reference', 'calls where str itself raises are left to C09']
MIN_EVAL = 1000
CASES = {'quick': 1200, 'thorough': 15000}
WEIGHTS = {'assign_str': 2, 'query': 10, 'strip': 4, 'split': 5, 'splitlines': 2, 'partition': 4, 'replace': 5, 'expandtabs': 1.5,
           'removefix': 3, 'case': 4, 'pad': 5, 'contains': 2, 'apply': 4, 'add': 2, 'getitem': 1}

QUERY = {'count', 'find', 'rfind', 'index', 'rindex', 'endswith', 'isalnum', 'isalpha', 'isascii', 'isdecimal',
         'isdigit', 'isidentifier', 'islower', 'isnumeric', 'isprintable', 'isspace', 'istitle', 'isupper',
         '__len__', '__contains__'}
TRANSFORM = {'capitalize', 'casefold', 'lower', 'upper', 'swapcase', 'title', 'strip', 'lstrip', 'rstrip',
             'removeprefix', 'removesuffix', 'replace', 'split', 'rsplit', 'splitlines', 'partition', 'rpartition',
             'ljust', 'rjust', 'zfill', 'expandtabs', 'center'}
STRIP_DEFAULT = ' \t\n\r\x0b\x0c'


def plain(L, x):
    if is_ansi(L, x):
        return x.base_str
    if isinstance(x, tuple):
        return tuple(plain(L, e) for e in x)
    return x


def reference(L, name, t, args, kw):
    """(kind, value): kind 'skip' (outside the claim), 'raises', or 'value'"""
    a = [plain(L, x) for x in args]
    new_is_plain = kw.get('__new_is_plain_str__', True)
    kw = {k: plain(L, v) for k, v in kw.items() if k not in ('inplace', 'extend_formatting', '__new_is_plain_str__')}

    def arg(i, key, default=None):
        if key in kw:
            return kw[key]
        return a[i] if i < len(a) else default

    try:
        if name == '__len__':
            return 'value', len(t)
        if name == '__contains__':
            if not isinstance(a[0], str):
                return 'skip', None
            return 'value', a[0] in t
        if name in ('strip', 'lstrip', 'rstrip'):
            chars = arg(0, 'chars')
            if chars is None:
                chars = STRIP_DEFAULT
            return 'value', getattr(t, name)(chars)
        if name == 'center':
            w = arg(0, 'width')
            f = arg(1, 'fillchar', ' ')
            if not isinstance(f, str) or len(f) != 1 or not isinstance(w, int):
                return 'skip', None
            if w <= len(t):
                return 'value', t
            left = (w - len(t)) // 2
            return 'value', f * left + t + f * (w - len(t) - left)
        if name == 'zfill':
            return 'value', t.rjust(arg(0, 'width'), '0')
        if name == 'expandtabs':
            n = arg(0, 'tabsize', 8)
            return 'value', t.replace('\t', ' ' * n)
        if name in ('split', 'rsplit'):
            sep = arg(0, 'sep')
            if sep == '':
                return 'skip', None
            return 'value', getattr(t, name)(sep, arg(1, 'maxsplit', -1))
        if name in ('partition', 'rpartition'):
            sep = arg(0, 'sep')
            if sep == '':
                return 'skip', None
            if name == 'rpartition' and isinstance(sep, str) and sep not in t:
                return 'value', (t, '', '')
            return 'value', tuple(getattr(t, name)(sep))
        if name == 'replace':
            new = arg(1, 'new')
            if new_is_plain and isinstance(new, str) and '\x1b' in new:
                # a plain-str replacement is parsed for escape sequences by design (C02 semantics): the text that
                # gets inserted is the replacement with its SGR sequences removed
                from .c02 import ref_parse
                ntext, _, grey, _ = ref_parse(new)
                if grey or ntext is None:
                    return 'skip', None
                new = ntext
            return 'value', t.replace(arg(0, 'old'), new, arg(2, 'count', -1))
        if name in ('ljust', 'rjust'):
            return 'value', getattr(t, name)(arg(0, 'width'), arg(1, 'fillchar', ' '))
        if name == 'splitlines':
            return 'value', t.splitlines(arg(0, 'keepends', False))
        return 'value', getattr(t, name)(*a, **kw)
    except Exception as e:
        return 'raises', e


def result_text(L, r):
    if is_ansi(L, r):
        return r.base_str
    if isinstance(r, (list, tuple)):
        return type(r)(result_text(L, x) for x in r)
    return r


class StrContract(Contract):
    prop = PROP
    methods = {('*', m) for m in QUERY | TRANSFORM}

    def pre(self, call):
        L = self.L
        # arguments are reduced to their base text *before* the call (an argument may be the receiver itself)
        pkw = {k: plain(L, v) for k, v in call.kwargs.items()}
        if call.name == 'replace':
            new = call.arg(1, 'new')
            # only a *plain str* replacement is parsed for escape sequences; an AnsiString's base text is inserted as is
            pkw['__new_is_plain_str__'] = isinstance(new, str) and not is_ansi(L, new)
        return (call.recv.base_str, [plain(L, a) for a in call.args], pkw)

    def post(self, call, st, result, exc):
        ctx = self.ctx
        L = self.L
        t, pargs, pkw = st
        kind, ref = reference(L, call.name, t, pargs, pkw)
        if kind == 'skip':
            ctx.grey('outside-claim:' + call.name)
            return
        if kind == 'raises':
            ctx.grey('str-raises-too')
            return
        ctx.ev('differential')
        argc = tuple(repr(a)[:40] for a in pargs)
        tclass = 'empty' if not t else ('ascii' if t.isascii() else 'non-ascii')
        ctx.sig('%s:%s' % (call.name, tclass))
        det = {'text': t, 'expected': repr(ref)[:300]}
        if isinstance(exc, StepBudgetExceeded) and (len(t) > 64 or any(isinstance(a, str) and len(a) > 64 for a in pargs)):
            ctx.grey('step-budget-on-input-longer-than-64')     # the bounded-progress claim is for inputs <= 64 (C09)
            return
        if exc is not None:
            mech = 'no-termination:' + call.name if isinstance(exc, StepBudgetExceeded) else 'raises-where-str-returns:' + call.name
            ctx.violation('raised-where-str-returns', dict(det, error=repr(exc)[:200]), call, mech=mech)
            if isinstance(exc, StepBudgetExceeded):
                ctx.extra['n_budget_violations'] = ctx.extra.get('n_budget_violations', 0) + 1
            return
        got = result_text(L, result)
        if isinstance(ref, list) or (isinstance(ref, tuple) and call.name in ('partition', 'rpartition')):
            ok = list(got) == list(ref) if isinstance(got, (list, tuple)) else False
        else:
            ok = got == ref and type(got) is type(ref)
        trivial = ref in (-1, 0, False, t, [t], (t, '', ''), [])
        if not trivial:
            ctx.nontriv((call.name, t, argc, repr(sorted(call.kwargs.items()))[:60]))
            if len(ctx.samples) < 12:
                ctx.sample({'method': call.name, 'text': t, 'args': list(argc), 'result': repr(got)[:80]})
        if not ok:
            ctx.violation('differs-from-str', dict(det, got=repr(got)[:300]), call, mech='differs-from-str:' + call.name)


def contracts(ctx, mon):
    return [StrContract(ctx)]


def direct_calls(ctx, rng, L, v):
    """a burst of differential calls on one value with argument classes aimed at str's corner cases"""
    t = v.base_str
    n = len(t)

    def sub(allow_empty=True):
        r = rng.random()
        if t and r < 0.65:
            i = rng.randrange(n)
            return t[i:i + rng.choice([1, 1, 2, 3])]
        if allow_empty and r < 0.8:
            return ''
        return gen_text(rng, 2, allow_empty=False)

    def b():
        return gen_bound(rng, n)

    calls = [
        lambda: len(v), lambda: sub() in v, lambda: L.AnsiString(sub(), 'red') in v,
        lambda: v.count(sub(), b(), b()), lambda: v.find(sub(), b(), b()), lambda: v.rfind(sub(), b(), b()),
        lambda: v.index(sub(), b()), lambda: v.rindex(sub(), b(), b()), lambda: v.count(sub()),
        lambda: v.endswith(sub(), b(), b()), lambda: v.endswith((sub(), t[-1:], 'zz')), lambda: v.endswith(t[n // 2:]),
        lambda: v.isalnum(), lambda: v.isalpha(), lambda: v.isascii(), lambda: v.isdecimal(), lambda: v.isdigit(),
        lambda: v.isidentifier(), lambda: v.islower(), lambda: v.isnumeric(), lambda: v.isprintable(),
        lambda: v.isspace(), lambda: v.istitle(), lambda: v.isupper(),
        lambda: v.capitalize(), lambda: v.casefold(), lambda: v.lower(), lambda: v.upper(), lambda: v.swapcase(),
        lambda: v.title(),
        lambda: v.strip(), lambda: v.lstrip(rng.choice([None, t[:1], 'ab', ''])), lambda: v.rstrip(rng.choice([None, t[-1:], ' \t'])),
        lambda: v.strip(t[:1] + t[-1:]),
        lambda: v.removeprefix(rng.choice(['', t[:1], t[:2], t, 'zz'])), lambda: v.removesuffix(rng.choice(['', t[-1:], t[-2:], t, 'zz'])),
        lambda: v.replace(sub(False), rng.choice(['', 'x', 'yy', sub(False)]), rng.choice([-1, 0, 1, 2])),
        lambda: v.replace('', rng.choice(['x', '', 'ab']), rng.choice([-1, 0, 1, 2, 50])),
        lambda: v.replace(sub(False), L.AnsiString('QQ', 'blue')),
        # a plain-str replacement carrying escape sequences is parsed (by design): shorter than it looks
        lambda: v.replace(sub(False), rng.choice(['x\x1b[1my', '\x1b[31m', 'a\x1b[0;4mb\x1b[m', '\x1b[38;5;9mZ'])),
        lambda: v.replace(t[:1], '\x1b[1m' + t[:1] + '\x1b[m', rng.choice([-1, 2])),
        lambda: (lambda o: v.replace(o, o))(sub(False)), lambda: v.replace(t[:2], t[:2], rng.choice([-1, 1])),
        lambda: v.split(rng.choice([None, sub(False), ' ', 'ab'])), lambda: v.split(sub(False), rng.choice([-1, 0, 1, 2])),
        lambda: v.rsplit(rng.choice([None, sub(False)]), rng.choice([-1, 0, 1, 2])), lambda: v.split(None, rng.choice([0, 1, 2])),
        lambda: v.splitlines(), lambda: v.splitlines(True),
        lambda: v.partition(sub(False)), lambda: v.rpartition(sub(False)), lambda: v.rpartition('zz'),
        lambda: v.ljust(rng.choice([0, n, n + 1, n + 4]), rng.choice([' ', '*', '0'])), lambda: v.rjust(rng.choice([0, n - 1, n + 3])),
        lambda: v.zfill(rng.choice([0, n, n + 1, n + 4])), lambda: v.center(rng.choice([0, n, n + 1, n + 2, n + 5]), rng.choice([' ', '-'])),
        lambda: v.expandtabs(rng.choice([0, 1, 4, 8])), lambda: v.expandtabs(),
    ]
    for _ in range(14):
        try:
            rng.choice(calls)()
        except Exception:
            pass


def drive(ctx, mon, tier, only_case=None):
    L = ctx.L
    sz = tier_sizes(tier)

    def body(rng, ex, case):
        history(L, rng, ex, rng.randint(1, 6), sz['maxlen'], 'wf', WEIGHTS, esc=rng.random() < 0.15)
        vals = ansi_values(L, ex)
        if rng.random() < 0.2:
            with mon.quiet():
                vals = vals + esc_seam_values(L, rng, 2)
        for v in vals[-4:]:
            if len(v.base_str) <= 80:
                direct_calls(ctx, rng, L, v)

    run_cases(ctx, mon, CASES[tier], body, only_case=only_case)
