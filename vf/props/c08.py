"""C08 - value semantics: arguments and receivers not mutated, results not aliased."""
from .. import obs as O
from .common import (trie_case, Contract, ansi_values, history, run_cases, tier_sizes, safe_obs, is_ansi, small_scope_values,
                     small_scope_on)

PROP = 'C08'
RULE = ('case = (a) every outermost public call made by a random history: receiver (unless the call is an in-place '
        'form) and every AnsiString/AnsiStr/list/tuple argument observed before and after (text, per-character '
        'setting objects, all 8 renderings); (b) in-place twin: the same call with and '
        'without inplace=True on two copies; (c) mutation probes: after an operation produced a new object, the '
        'result is mutated and the sources re-observed, then each source is mutated and the result re-observed; '
        '(d) copy()/AnsiString(s) == s and render identically.  Non-trivial: receiver/argument styled; distinct = '
        'distinct (method, receiver observation, argument observations).')
ASSUMPTIONS = ['observation channel: base_str, ansi_settings_at (texts and object identity), to_str under all 8 flag combinations',
               'in-place calls: assign_str, set_ansi_str, simplify, apply/remove/clear_formatting, *_matching, '
               'apply_formatting_for_match, += on AnsiString, and any call with inplace=True']
MIN_EVAL = 500
CASES = {'quick': 300, 'thorough': 3000}
WEIGHTS = {'add': 8, 'iadd': 5, 'join': 3, 'replace': 5, 'getitem': 5, 'copy': 3, 'convert': 3, 'split': 3,
           'partition': 2, 'apply': 8, 'pad': 3}

INPLACE_METHODS = {'assign_str', 'set_ansi_str', 'simplify', 'apply_formatting', 'remove_formatting',
                   'apply_formatting_for_match', 'format_matching', 'unformat_matching', 'clear_formatting',
                   '__iadd__', '__init__'}
HAS_INPLACE = ['capitalize', 'casefold', 'center', 'ljust', 'rjust', 'lower', 'upper', 'lstrip', 'clip', 'rstrip',
               'strip', 'removeprefix', 'removesuffix', 'replace', 'expandtabs', 'swapcase', 'title', 'zfill']


class Snap:
    """what can be observed of one value"""

    def __init__(self, L, v):
        self.v = v
        self.o = O.observe(v)
        self.ids = [[id(x) for x in row] for row in self.o.objs]
        self.s = self.renderings(v)
        self.payload = str.__str__(v) if isinstance(v, L.AnsiStr) else None
        self.tail = self.tail_of(v)

    @staticmethod
    def renderings(v):
        try:
            return [v.to_str(optimize=a, reset_start=b, reset_end=c) for a in (True, False) for b in (False, True)
                    for c in (True, False)]
        except Exception as e:
            raise O.ObsError(e)

    @staticmethod
    def tail_of(v):
        # what a character appended to the value would look like: the only public way to see a start/stop marker
        # sitting at or behind the end of the text (v + 'Z' builds a new value, v itself is not touched)
        try:
            return str(v + 'Z')
        except Exception as e:
            raise O.ObsError(e)

    def diff(self, L):
        v = self.v
        o2 = O.observe(v)
        if o2.text != self.o.text:
            return 'text %r -> %r' % (self.o.text, o2.text)
        d = O.first_diff_exact(self.o.texts, o2.texts)
        if d is not None:
            return 'settings at %d: %r -> %r' % (d, self.o.texts[d], o2.texts[d] if d < len(o2.texts) else None)
        ids2 = [[id(x) for x in row] for row in o2.objs]
        if ids2 != self.ids:
            return 'setting objects replaced'
        r2 = self.renderings(v)
        if r2 != self.s:
            k = [i for i in range(8) if r2[i] != self.s[i]][0]
            return 'rendering (optimize=%s, reset_start=%s, reset_end=%s) %r -> %r' % (
                k < 4, k % 4 >= 2, k % 2 == 0, self.s[k], r2[k])
        if self.payload is not None and str.__str__(v) != self.payload:
            return 'str payload changed'
        t2 = self.tail_of(v)
        if t2 != self.tail:
            return "rendering of (value + 'Z') %r -> %r" % (self.tail, t2)
        return None


def snap_struct(L, x, depth=0):
    """structural snapshot of a list/tuple argument"""
    if isinstance(x, (list, tuple)) and depth < 6:
        return (type(x).__name__, id(x), tuple(snap_struct(L, e, depth + 1) for e in x))
    if isinstance(x, L.AnsiSetting):
        return ('S', id(x), str(x))
    if isinstance(x, (str, int, float, bool)) or x is None:
        return ('lit', repr(x))
    return ('obj', id(x))


class ValueContract(Contract):
    prop = PROP
    methods = {('*', '*')}

    def pre(self, call):
        L = self.L
        st = {'recv': None, 'args': []}
        recv = call.recv
        inplace = call.name in INPLACE_METHODS or bool(call.kwargs.get('inplace')) or (
            call.name in HAS_INPLACE and self._positional_inplace(call))
        st['inplace'] = inplace and call.cls == 'AnsiString'
        if recv is not None and is_ansi(L, recv) and call.name != '__init__':
            if not st['inplace']:
                st['recv'] = Snap(L, recv)
        vals = list(call.args) + list(call.kwargs.values())
        for a in vals:
            if a is recv and st['inplace']:
                continue
            if is_ansi(L, a):
                st['args'].append(('value', Snap(L, a)))
            elif isinstance(a, (list, tuple)):
                st['args'].append(('struct', a, snap_struct(L, a)))
                for e in a:
                    if is_ansi(L, e):
                        st['args'].append(('value', Snap(L, e)))
        return st

    @staticmethod
    def _positional_inplace(call):
        pos = {'capitalize': 0, 'casefold': 0, 'center': 2, 'ljust': 2, 'rjust': 2, 'lower': 0, 'upper': 0,
               'lstrip': 1, 'clip': 2, 'rstrip': 1, 'strip': 1, 'removeprefix': 1, 'removesuffix': 1, 'replace': 3,
               'expandtabs': 1, 'swapcase': 0, 'title': 0, 'zfill': 1}.get(call.name)
        return pos is not None and len(call.args) > pos and bool(call.args[pos])

    def post(self, call, st, result, exc):
        ctx = self.ctx
        L = self.L
        key = [call.name]
        if st['recv'] is not None:
            ctx.ev('receiver-unchanged')
            key.append(st['recv'].o.key())
            d = st['recv'].diff(L)
            if d:
                ctx.violation('receiver-mutated', {'what': d, 'before': st['recv'].o.describe(),
                                                   'raised': repr(exc) if exc else None}, call,
                              mech='receiver-mutated:' + call.name)
        styled = st['recv'] is not None and st['recv'].o.styled()
        for item in st['args']:
            ctx.ev('argument-unchanged')
            if item[0] == 'value':
                sn = item[1]
                key.append(sn.o.key())
                styled = styled or sn.o.styled()
                d = sn.diff(L)
                if d:
                    ctx.violation('argument-mutated', {'what': d, 'before': sn.o.describe(),
                                                       'raised': repr(exc) if exc else None}, call,
                                  mech='argument-mutated:' + call.name)
            else:
                if snap_struct(L, item[1]) != item[2]:
                    ctx.violation('settings-argument-mutated', {'before': repr(item[2])[:400],
                                                                'after': repr(snap_struct(L, item[1]))[:400]}, call,
                                  mech='settings-argument-mutated:' + call.name)
        if st['inplace'] and exc is None and call.name not in ('__init__',):
            if call.name in HAS_INPLACE or call.name == '__iadd__':
                ctx.ev('inplace-returns-self')
                if result is not call.recv:
                    ctx.violation('inplace-not-self', {'returned': repr(type(result))}, call,
                                  mech='inplace-not-self:' + call.name)
        ctx.sig(call.cls + '.' + call.name)
        if styled:
            ctx.nontriv(tuple(key))
            if len(ctx.samples) < 8 and st['args']:
                ctx.sample({'call': call.describe(), 'receiver_before': st['recv'].o.describe() if st['recv'] else None,
                            'inplace_form': st['inplace']})


def contracts(ctx, mon):
    ctx.mon = mon
    return [ValueContract(ctx)]


MUTATIONS = ['apply', 'remove', 'assign', 'iadd', 'clear', 'center', 'simplify', 'upper']


def mutate(L, rng, v):
    """mutate an AnsiString in place through the public API"""
    kind = rng.choice(MUTATIONS)
    if kind == 'apply':
        v.apply_formatting('[97;7', 0, None, topmost=rng.random() < 0.5)
    elif kind == 'remove':
        v.remove_formatting()
    elif kind == 'assign':
        v.assign_str(v.base_str[:max(0, len(v.base_str) - 1)] + 'Q!')
    elif kind == 'iadd':
        v += L.AnsiString('q', 'bg_white')
    elif kind == 'clear':
        v.clear_formatting()
    elif kind == 'center':
        v.center(len(v.base_str) + 3, '#', inplace=True)
    elif kind == 'simplify':
        v.apply_formatting('italic', 0, 1)
        v.simplify()
    elif kind == 'upper':
        v.apply_formatting('[95', 0, max(1, len(v.base_str) // 2))
        v.swapcase(inplace=True)
    return kind


def flat_results(L, res):
    if is_ansi(L, res):
        return [res]
    if isinstance(res, (list, tuple)):
        return [x for x in res if is_ansi(L, x)]
    return []


def alias_probe(ctx, mon, rng, ex, hg):
    """one producing operation, then mutate result -> sources unchanged, mutate sources -> result unchanged"""
    L = ctx.L
    kind = rng.choice(['add', 'getitem', 'copy', 'convert', 'split', 'partition', 'replace', 'join', 'clip', 'pad',
                       'strip', 'case', 'iter', 'splitlines', 'removefix', 'simplify', 'apply', 'remove'])
    op = hg.mk_op(kind)
    if op.get('k', {}).get('inplace') or op['m'] in ('iadd',):
        return
    if op['m'] in ('apply_formatting', 'remove_formatting', 'simplify') and not isinstance(ex.pool[op['r']], L.AnsiStr):
        return
    srcs = []
    if 'r' in op:
        srcs.append(ex.pool[op['r']])
    for a in op.get('a', []):
        if isinstance(a, dict) and '$' in a:
            srcs.append(ex.pool[a['$']])
    srcs = [s for i, s in enumerate(srcs) if is_ansi(L, s) and not any(s is t for t in srcs[:i])]
    res, exc = ex.run(op)
    if exc is not None:
        return
    results = flat_results(L, res)
    if not results or not srcs:
        return
    with mon.quiet():
        for r in results:
            if any(r is s for s in srcs):
                ctx.ev('result-is-new-object')
                if isinstance(r, L.AnsiString):
                    ctx.violation('result-is-source', {'op': op}, mech='result-is-source:' + op['m'])
                return
        # (0) the pieces of one result are independent objects too
        for i, r in enumerate(results):
            if any(r is q for q in results[:i]):
                ctx.ev('result-pieces-distinct')
                ctx.violation('result-pieces-are-one-object', {'op': op, 'piece': i}, mech='aliasing-between-pieces:' + op['m'])
                return
        if len(results) > 12:
            # (iteration / split of a long value: every piece was checked for identity above; the snapshot-and-mutate
            #  part, which costs a full observation per piece, takes the pieces at both ends)
            results = results[:6] + results[-6:]
        # (1) mutate results, re-observe sources (and the sibling pieces)
        snaps = [Snap(L, s) for s in srcs]
        for ri, r in enumerate(results):
            if isinstance(r, L.AnsiString):
                sib = [Snap(L, q) for qi, q in enumerate(results) if qi != ri]
                try:
                    k = mutate(L, rng, r)
                except Exception as e:
                    ctx.aborted['mutation-raised:' + type(e).__name__] += 1
                    return
                ctx.ev('mutate-result-sources-unchanged')
                for sn in snaps:
                    d = sn.diff(L)
                    if d:
                        ctx.violation('source-changed-by-mutating-result',
                                      {'op': op, 'mutation': k, 'what': d, 'source_before': sn.o.describe()},
                                      mech='aliasing:' + op['m'])
                        return
                for sn in sib:
                    d = sn.diff(L)
                    if d:
                        ctx.violation('sibling-piece-changed-by-mutating-piece',
                                      {'op': op, 'mutation': k, 'what': d, 'piece_before': sn.o.describe()},
                                      mech='aliasing-between-pieces:' + op['m'])
                        return
        # (2) mutate sources, re-observe results
        rsnaps = [Snap(L, r) for r in results]
        for s in srcs:
            if isinstance(s, L.AnsiString):
                try:
                    k = mutate(L, rng, s)
                except Exception as e:
                    ctx.aborted['mutation-raised:' + type(e).__name__] += 1
                    return
                ctx.ev('mutate-source-result-unchanged')
                for sn in rsnaps:
                    d = sn.diff(L)
                    if d:
                        ctx.violation('result-changed-by-mutating-source',
                                      {'op': op, 'mutation': k, 'what': d, 'result_before': sn.o.describe()},
                                      mech='aliasing:' + op['m'])
                        return
        ctx.sig('alias-probe:' + op['m'])


def inplace_twin(ctx, mon, rng, ex, hg):
    L = ctx.L
    kind = rng.choice(['pad', 'strip', 'case', 'replace', 'removefix', 'clip', 'expandtabs'])
    op = hg.mk_op(kind)
    if 'r' not in op or not isinstance(ex.pool[op['r']], L.AnsiString) or op['m'] not in HAS_INPLACE:
        return
    v = ex.pool[op['r']]
    with mon.quiet():
        c1 = L.AnsiString(v)
        c2 = L.AnsiString(v)
    a = [ex.dec(x) for x in op.get('a', [])]
    k = {kk: ex.dec(x) for kk, x in op.get('k', {}).items()}
    k.pop('inplace', None)
    try:
        r1 = getattr(c1, op['m'])(*a, inplace=True, **k)
        e1 = None
    except Exception as e:
        r1, e1 = None, e
    try:
        r2 = getattr(c2, op['m'])(*a, **k)
        e2 = None
    except Exception as e:
        r2, e2 = None, e
    ctx.ev('inplace-twin')
    det = {'op': op}
    if (e1 is None) != (e2 is None):
        ctx.violation('inplace-twin-raise-differs', dict(det, inplace=repr(e1), copy=repr(e2)),
                      mech='inplace-twin:' + op['m'])
        return
    if e1 is not None:
        return
    with mon.quiet():
        if r1 is not c1:
            ctx.violation('inplace-not-self', det, mech='inplace-not-self:' + op['m'])
            return
        if r2 is c2:
            ctx.violation('non-inplace-returned-receiver', det, mech='non-inplace-returned-self:' + op['m'])
            return
        o1, o2 = O.observe(r1), O.observe(r2)
        if o1.text != o2.text or O.first_diff_exact(o1.texts, o2.texts) is not None or str(r1) != str(r2):
            ctx.violation('inplace-differs-from-copy', dict(det, inplace=o1.describe(), copy=o2.describe()),
                          mech='inplace-twin:' + op['m'])
        ctx.sig('inplace-twin:' + op['m'])


def copy_probe(ctx, mon, v):
    L = ctx.L
    with mon.quiet():
        try:
            cs = []
            if isinstance(v, L.AnsiString):
                cs.append(('copy()', v.copy()))
            cs.append(('AnsiString(s)', L.AnsiString(v)))
            if isinstance(v, L.AnsiString):
                import copy as _copy
                import pickle as _pickle
                cs.append(('copy.copy(s)', _copy.copy(v)))
                cs.append(('copy.deepcopy(s)', _copy.deepcopy(v)))
                cs.append(('pickle', _pickle.loads(_pickle.dumps(v))))
            o = O.observe(v)
            for name, c in cs:
                ctx.ev('copy-equal')
                eq = (c == (v if isinstance(v, L.AnsiString) else L.AnsiString(v)))
                co = O.observe(c)
                same = co.text == o.text and O.first_diff_exact(o.texts, co.texts) is None
                rend = all(c.to_str(optimize=op, reset_start=rs, reset_end=re_) ==
                           v.to_str(optimize=op, reset_start=rs, reset_end=re_)
                           for op in (True, False) for rs in (True, False) for re_ in (True, False))
                if not (eq and same and rend):
                    ctx.violation('copy-differs', {'how': name, 'eq': eq, 'same_settings': same, 'same_rendering': rend,
                                                   'value': o.describe()}, mech='copy-differs')
            if isinstance(v, L.AnsiStr):
                ctx.ev('copy-equal')
                c = L.AnsiStr(v)
                if not (c == v) or str(c) != str(v):
                    ctx.violation('copy-differs', {'how': 'AnsiStr(s)', 'value': o.describe()}, mech='copy-differs')
        except Exception:
            ctx.oracle_error('copy_probe')


def drive(ctx, mon, tier, only_case=None):
    L = ctx.L
    sz = tier_sizes(tier)

    def small_scope(rng):
        # bounded-exhaustive part: every small-scope value x every producing operation; then the result is wiped
        # (remove_formatting touches every marker) and the source re-observed, and the other way round
        m = small_scope_on(ctx, tier)
        nv = 0
        producers = [lambda v: v[1:3], lambda v: v[:2], lambda v: v[2:], lambda v: v[0:4], lambda v: v[3], lambda v: v.copy(),
                     lambda v: L.AnsiString(v), lambda v: v + 'x', lambda v: v + v, lambda v: L.AnsiString.join(v, v[1:]),
                     lambda v: v.split('b'), lambda v: v.partition('c'), lambda v: v.partition('x'), lambda v: v.clip(1, 3),
                     lambda v: v.strip('a'), lambda v: v.ljust(6), lambda v: v.center(7, '*'), lambda v: v.upper(),
                     lambda v: v.replace('b', 'B'), lambda v: v.replace('x', 'y'), lambda v: v.replace('abcd', L.AnsiString('Q', '1')),
                     lambda v: list(v), lambda v: v.removeprefix('a'), lambda v: v.splitlines(), lambda v: L.AnsiStr(v)]
        for v, _ in small_scope_values(L, m, ctx.shard, ctx.extra.get('nshards', 1)):
            nv += 1
            for pi, prod in enumerate(producers):
                with mon.quiet():
                    src = L.AnsiString(v)
                    res = prod(src)
                    results = [r for r in flat_results(L, res) if isinstance(r, L.AnsiString)]
                    if not results:
                        continue
                    ctx.ev('small-scope-alias')
                    if any(r is src for r in results) or len({id(r) for r in results}) != len(results):
                        ctx.violation('result-is-source-or-shared', {'producer': pi, 'value': O.observe(src).describe()},
                                      mech='aliasing-small-scope')
                        continue
                    s0 = Snap(L, src)
                    r0 = [Snap(L, r) for r in results]
                    wipe = (nv + pi) % 3
                    for r in results:
                        if wipe == 0:
                            r.remove_formatting()
                        elif wipe == 1:
                            r.apply_formatting('[95;7', 0, None, topmost=False)
                        else:
                            r += L.AnsiString('!', 'bg_white')
                            r.assign_str('zz')
                    d = s0.diff(L)
                    if d:
                        ctx.violation('source-changed-by-mutating-result', {'producer': pi, 'what': d,
                                                                            'source_before': s0.o.describe()},
                                      mech='aliasing-small-scope')
                        continue
                    # the other way round on fresh objects
                    src = L.AnsiString(v)
                    res = prod(src)
                    results = [r for r in flat_results(L, res) if is_ansi(L, r)]
                    r0 = [Snap(L, r) for r in results]
                    if wipe == 0:
                        src.remove_formatting()
                    elif wipe == 1:
                        src.apply_formatting('[95;7', 0, None, topmost=False)
                    else:
                        src += L.AnsiString('!', 'bg_white')
                        src.assign_str('zz')
                    for sn in r0:
                        d = sn.diff(L)
                        if d:
                            ctx.violation('result-changed-by-mutating-source', {'producer': pi, 'what': d,
                                                                                'result_before': sn.o.describe()},
                                          mech='aliasing-small-scope')
                            break
        ctx.extra['n_small_scope_values'] = nv

    def trie_alias(v, p):
        # a producing operation on a node of the operation tree; wipe the result, the source must not notice - and
        # the other way round
        prods = [lambda x: x[1:3], lambda x: x[:2], lambda x: x + 'x', lambda x: x + x, lambda x: x.split('b'),
                 lambda x: x.partition('c'), lambda x: x.clip(0, 2), lambda x: x.ljust(5), lambda x: x.replace('b', 'B'),
                 lambda x: list(x), lambda x: x.copy(), lambda x: L.AnsiStr(x)]
        pi = len(p) * 7 + sum(o[2] + o[3] for o in p)
        for k in range(3):
            prod = prods[(pi + k * 5) % len(prods)]
            with mon.quiet():
                src = L.AnsiString(v)
                res = prod(src)
                results = [r for r in flat_results(L, res) if isinstance(r, L.AnsiString)]
                ctx.ev('op-tree-alias')
                if any(r is src for r in results):
                    ctx.violation('result-is-source-or-shared', {'value': O.observe(src).describe()}, mech='aliasing-small-scope')
                    continue
                s0 = Snap(L, src)
                for r in results:
                    r.remove_formatting()
                    r.apply_formatting('[95;7', 0, None, topmost=False)
                d = s0.diff(L)
                if d:
                    ctx.violation('source-changed-by-mutating-result', {'what': d, 'source_before': s0.o.describe()},
                                  mech='aliasing-small-scope')
                    continue
                src = L.AnsiString(v)
                res = prod(src)
                results = [r for r in flat_results(L, res) if is_ansi(L, r)]
                r0 = [Snap(L, r) for r in results]
                src.remove_formatting()
                src.apply_formatting('[95;7', 0, None, topmost=False)
                for sn in r0:
                    d = sn.diff(L)
                    if d:
                        ctx.violation('result-changed-by-mutating-source', {'what': d, 'result_before': sn.o.describe()},
                                      mech='aliasing-small-scope')
                        break

    def body(rng, ex, case):
        if case == 0:
            small_scope(rng)
            return
        if case == 1:
            trie_case(ctx, mon, tier, 2, 3, visit=trie_alias)
            return
        profile = 'mixed' if rng.random() < 0.3 else 'wf'
        hg = history(L, rng, ex, rng.randint(2, sz['nops']), sz['maxlen'], profile, WEIGHTS)
        for v in ansi_values(L, ex)[-5:]:
            copy_probe(ctx, mon, v)
        for _ in range(6):
            inplace_twin(ctx, mon, rng, ex, hg)
        for _ in range(8):
            alias_probe(ctx, mon, rng, ex, hg)
        idx = [i for i, v in enumerate(ex.pool) if is_ansi(L, v) and len(v.base_str) <= 12][-5:]
        if idx:
            # a join of many operands (9..13), the same pool values several times among them
            n = rng.randint(9, 13)
            a = [({'$': rng.choice(idx)} if rng.random() < 0.6 else rng.choice(['', 'x', ' '])) for _ in range(n)]
            res, exc = ex.run({'m': 'join', 'cls': rng.choice(['AnsiString', 'AnsiStr']), 'a': a})
            if exc is None and isinstance(res, L.AnsiString):
                with mon.quiet():
                    snaps = [Snap(L, ex.pool[i]) for i in idx]
                    res.apply_formatting('[95;7', 0, None, topmost=False)
                    res += 'zz'
                    for sn in snaps:
                        d = sn.diff(L)
                        ctx.ev('many-join-independent')
                        if d:
                            ctx.violation('source-changed-by-mutating-result', {'op': 'join of %d operands' % n, 'what': d,
                                                                                'source_before': sn.o.describe()},
                                          mech='aliasing:join')
                            break

    run_cases(ctx, mon, CASES[tier], body, only_case=only_case)
