"""C16 - format_matching/unformat_matching equal apply/remove over re matches."""
import re

from .. import obs as O
from .common import (trie_case, Contract, ansi_values, history, run_cases, tier_sizes, safe_obs, settings_texts, small_scope_values,
                     small_scope_on)
from ..gen import gen_matchspec, gen_settings

PROP = 'C16'
RULE = ('case = one format_matching / unformat_matching call on a reachable value (plain patterns with '
        'metacharacters, regexes with empty and adjacent matches, mixed case, count in {-1,0,1,2,3}, prior formatting '
        'overlapping match borders).  Before the call the monitor copies the receiver; afterwards it folds '
        'apply_formatting / remove_formatting over re.finditer on the copy (escaped unless regex, IGNORECASE unless '
        'match_case, first count matches) and compares text, per-character settings and rendering; independently, '
        'characters outside all matches must be precedence-equivalent to before.  Non-trivial: >= 1 non-empty match '
        'on a styled value; distinct = distinct (value, pattern, flags, settings).')
ASSUMPTIONS = ['Python re.finditer is the reference for matches', 'invalid regular expressions are grey']
MIN_EVAL = 400
CASES = {'quick': 640, 'thorough': 10800}
WEIGHTS = {'apply': 10, 'format_matching': 8, 'unformat_matching': 8, 'remove': 2, 'getitem': 2, 'add': 2, 'query': 0.1,
           'find_settings': 0.1, 'settings_at': 0.1}


class MatchContract(Contract):
    prop = PROP
    methods = {('*', 'format_matching'), ('*', 'unformat_matching')}

    def pre(self, call):
        L = self.L
        return (O.observe(call.recv), L.AnsiString(call.recv))

    def post(self, call, st, result, exc):
        ctx = self.ctx
        L = self.L
        o, cpy = st
        spec = call.arg(0, 'matchspec')
        fmt = tuple(call.args[1:])
        regex = call.kwargs.get('regex', False)
        match_case = call.kwargs.get('match_case', False)
        count = call.kwargs.get('count', -1)
        if not isinstance(spec, str) or not isinstance(count, int):
            return
        pat = spec if regex else re.escape(spec)
        try:
            matches = list(re.finditer(pat, o.text, 0 if match_case else re.IGNORECASE))
        except re.error:
            ctx.grey('invalid-regex')
            return
        if count >= 0:
            matches = matches[:count]
        if O.has_esc(o.text):
            ctx.grey('esc-in-text')
            return
        det = {'before': o.describe(), 'method': call.name, 'pattern': spec, 'regex': bool(regex),
               'match_case': bool(match_case), 'count': count, 'matches': [[m.start(), m.end()] for m in matches][:20]}
        ctx.ev('fold')
        if exc is not None:
            # the fold may raise the same way (bad settings): then nothing to compare
            try:
                self.fold(call.name, cpy, matches, fmt)
            except Exception as e2:
                if type(e2) is type(exc):
                    return
            ctx.violation('raised-where-fold-succeeds', dict(det, error=repr(exc)), call, mech='matching-raised:' + call.name)
            return
        v = call.recv if call.cls == 'AnsiString' else result
        p = O.observe(v)
        det['after'] = p.describe()
        try:
            self.fold(call.name, cpy, matches, fmt)
        except Exception as e:
            ctx.violation('fold-raised-where-call-succeeds', dict(det, error=repr(e)), call, mech='matching-fold-raised:' + call.name)
            return
        f = O.observe(cpy)
        nonempty = [m for m in matches if m.end() > m.start()]
        ctx.sig('%s:regex=%s:case=%s:count=%s:matches=%s:empty-matches=%s' % (
            call.name, bool(regex), bool(match_case), 'neg' if count < 0 else min(count, 2), min(len(nonempty), 3),
            any(m.end() == m.start() for m in matches)))
        if nonempty and o.styled():
            ctx.nontriv((call.name, o.key(), spec, bool(regex), bool(match_case), count, repr(fmt)[:80]))
            if len(ctx.samples) < 10:
                ctx.sample(det)
        if p.text != o.text:
            ctx.violation('text-changed', det, call, mech='matching-text')
            return
        d = O.first_diff_equiv(f.texts, p.texts)
        if d is not None:
            ctx.violation('differs-from-fold', dict(det, fold=f.describe(), at=d), call, mech='matching-differs-from-fold:' + call.name)
            return
        if str(cpy) != str(v):
            ctx.violation('rendering-differs-from-fold', dict(det, fold=str(cpy), got=str(v)), call,
                          mech='matching-render-differs:' + call.name)
            return
        covered = set()
        for m in matches:
            covered.update(range(m.start(), m.end()))
        for i in range(len(o.text)):
            if i not in covered and not O.prec_equiv(o.texts[i], p.texts[i]):
                ctx.violation('outside-matches-changed', dict(det, index=i), call, mech='matching-outside-changed:' + call.name)
                return
        # and something did change inside a match when formatting was given (format_matching)
        if call.name == 'format_matching' and fmt and nonempty:
            G = settings_texts(L, ctx.mon, list(fmt))
            if G:
                m0 = nonempty[0]
                from collections import Counter
                if Counter(p.texts[m0.start()]) != Counter(o.texts[m0.start()]) + Counter(G):
                    ctx.violation('match-not-formatted', dict(det, index=m0.start(), settings=G), call,
                                  mech='matching-not-applied')

    @staticmethod
    def fold(name, cpy, matches, fmt):
        if name == 'format_matching':
            for m in matches:
                cpy.apply_formatting(fmt, m.start(), m.end())
        else:
            f = None if (not fmt or None in fmt) else fmt
            for m in matches:
                cpy.remove_formatting(f, m.start(), m.end())


def contracts(ctx, mon):
    ctx.mon = mon
    return [MatchContract(ctx)]


def drive(ctx, mon, tier, only_case=None):
    L = ctx.L
    sz = tier_sizes(tier)

    def body(rng, ex, case):
        if case == 0:
            # bounded-exhaustive part: every small-scope value x a fixed battery of match specs
            m = small_scope_on(ctx, tier)
            nv = 0
            pats = [('a', {}), ('B', {}), ('B', {'match_case': True}), ('bc', {'count': 1}), ('[ab]', {'regex': True}),
                    ('[ab]', {}), ('b*', {'regex': True}), ('', {}), ('.', {'regex': True, 'count': 2}), ('x', {}),
                    ('a|cd', {'regex': True}), ('(?=c)', {'regex': True})]
            for v, _ in small_scope_values(L, m, ctx.shard, ctx.extra.get('nshards', 1)):
                nv += 1
                for pat, kw in pats:
                    for which in range(4):
                        with mon.quiet():
                            t = L.AnsiString(v) if which < 3 or True else None
                        if which == 0:
                            t.format_matching(pat, 'blue', **kw)
                        elif which == 1:
                            t.format_matching(pat, 'bold', 'red', **kw)
                        elif which == 2:
                            t.unformat_matching(pat, '[31', **kw)
                        else:
                            t.unformat_matching(pat, **kw)
            ctx.extra['n_small_scope_values'] = nv
            return
        if case == 1:
            tp = [('b', {}), ('[ab]', {'regex': True}), ('bc', {'count': 1}), ('.', {'regex': True, 'count': 2}), ('B', {}), ('', {})]

            def visit(v, p):
                for pat, kw in (tp if tier == 'thorough' else tp[:3]):
                    for which in range(3):
                        with mon.quiet():
                            t = L.AnsiString(v)
                        if which == 0:
                            t.format_matching(pat, 'blue', **kw)
                        elif which == 1:
                            t.unformat_matching(pat, '[31', **kw)
                        else:
                            t.unformat_matching(pat, **kw)
            trie_case(ctx, mon, tier, 2, 3, visit=visit)
            return
        profile = 'mixed' if rng.random() < 0.25 else 'wf'
        history(L, rng, ex, rng.randint(1, sz['nops']), sz['maxlen'], profile, WEIGHTS)
        for v in ansi_values(L, ex)[-5:]:
            o = safe_obs(mon, v)
            if o is None or len(o.text) > 80:
                continue
            present = sorted(o.all_texts())
            for _ in range(4):
                spec, kw = gen_matchspec(rng, o.text)
                with mon.quiet():
                    tgt = L.AnsiString(v) if rng.random() < 0.7 else L.AnsiStr(v)
                try:
                    if rng.random() < 0.55:
                        tgt.format_matching(spec, *[ex.dec(s) for s in gen_settings(rng, profile, 2)], **kw)
                    else:
                        r = rng.random()
                        if r < 0.3:
                            fm = []
                        elif r < 0.4:
                            fm = [None]
                        elif present and r < 0.85:
                            fm = ['[' + t for t in rng.sample(present, min(len(present), rng.choice([1, 2])))]
                        else:
                            fm = [ex.dec(s) for s in gen_settings(rng, profile, 2)]
                        tgt.unformat_matching(spec, *fm, **kw)
                except Exception:
                    pass

    run_cases(ctx, mon, CASES[tier], body, only_case=only_case)
