"""C13 - AnsiStr is equivalent to AnsiString; its str payload equals its rendering."""
import io
import types

from .. import obs as O
from .common import Contract, ansi_values, history, run_cases, tier_sizes, is_ansi, FLAG_COMBOS, esc_seam_values
from ..gen import gen_ansi_input, gen_settings, gen_text

PROP = 'C13'
RULE = ('case = (a) every AnsiStr leaving the API (constructor or any AnsiStr method result): str.__str__(a) == '
        '\'%s\' % a == a.to_str(); (b) twin execution: one constructor form (str / ANSI-coded str / AnsiString / '
        'AnsiStr source x with/without settings) or one shared method called on an AnsiString copy (non-in-place '
        'form) and on AnsiStr(receiver) with the same arguments; results compared by type, text, per-character '
        'settings, str(), to_str under 8 flag sets and 2 format specs; (c) copy/deepcopy/pickle of an AnsiStr; (d) an '
        'AnsiStr made from a mutable AnsiString (conversion, +, +=, join, replace; empty and non-empty receivers) is '
        're-observed after in-place edits of that AnsiString: payload == rendering == what it was.  Shared methods are found by introspection; '
        'those never exercised are listed in evidence.  Non-trivial: styled receiver or settings given; distinct = '
        'distinct (operation, receiver, arguments).')
ASSUMPTIONS = ['precedence-equivalence for per-character settings', 'a list and a tuple of pieces are both accepted']
MIN_EVAL = 500
CASES = {'quick': 640, 'thorough': 10800}
WEIGHTS = {'apply': 8, 'new_ansi': 2, 'convert': 3}
INPLACE_ONLY = {'apply_formatting', 'remove_formatting', 'apply_formatting_for_match', 'format_matching',
                'unformat_matching', 'clear_formatting', 'simplify'}
TWIN_KINDS = ['apply', 'remove', 'clear_formatting', 'getitem', 'clip', 'iter', 'add', 'iadd', 'join', 'pad', 'format',
              'to_str', 'strip', 'split', 'splitlines', 'partition', 'replace', 'expandtabs', 'removefix', 'case',
              'simplify', 'format_matching', 'unformat_matching', 'match_apply', 'query', 'find_settings',
              'settings_at', 'eq', 'contains']
SPECS = ['*^9:underline', '->7']


def shared_methods(L):
    a = {k for k, v in vars(L.AnsiString).items() if isinstance(v, (types.FunctionType, staticmethod)) and (not k.startswith('_') or k.startswith('__'))}
    b = {k for k, v in vars(L.AnsiStr).items() if isinstance(v, (types.FunctionType, staticmethod))}
    return sorted(a & b)


class PayloadContract(Contract):
    prop = PROP
    methods = {('AnsiStr', '*')}

    def post(self, call, st, result, exc):
        ctx = self.ctx
        L = self.L
        if exc is not None:
            return
        outs = []
        if isinstance(result, L.AnsiStr):
            outs = [result]
        elif isinstance(result, (list, tuple)):
            outs = [x for x in result if isinstance(x, L.AnsiStr)]
        for a in outs:
            ctx.ev('payload')
            payload = str.__str__(a)
            pct = '%s' % (a,)
            rend = a.to_str()
            sio = io.StringIO()
            sio.write(a)
            print(a, end='', file=sio)
            written = sio.getvalue()
            if written != rend + rend:
                ctx.violation('written-text-differs-from-rendering',
                              {'written': written, 'to_str': rend, 'text': a.base_str}, call, mech='payload-written:' + call.name)
            if not (payload == pct == rend):
                ctx.violation('payload-differs-from-rendering',
                              {'payload': payload, 'percent_s': pct, 'to_str': rend, 'text': a.base_str}, call,
                              mech='payload:' + call.name)


def contracts(ctx, mon):
    ctx.mon = mon
    return [PayloadContract(ctx)]


def describe_result(L, r):
    """normal form of a result for comparison across the two classes"""
    if is_ansi(L, r):
        o = O.observe(r)
        rend = [r.to_str(optimize=a, reset_start=b, reset_end=c) for a, b, c in FLAG_COMBOS]
        fm = []
        for sp in SPECS:
            fm.append(format(r, sp))
        return ('ansi', o.text, o.texts, str(r), rend, fm)
    if isinstance(r, (list, tuple)):
        return ('seq', [describe_result(L, x) for x in r])
    if isinstance(r, types.GeneratorType) or hasattr(r, '__next__'):
        return ('seq', [describe_result(L, x) for x in r])
    return ('plain', r)


def same(L, a, b):
    if a[0] != b[0]:
        return 'kind %s vs %s' % (a[0], b[0])
    if a[0] == 'plain':
        return None if (a[1] == b[1] and type(a[1]) is type(b[1])) else 'value %r vs %r' % (a[1], b[1])
    if a[0] == 'seq':
        if len(a[1]) != len(b[1]):
            return 'length %d vs %d' % (len(a[1]), len(b[1]))
        for x, y in zip(a[1], b[1]):
            d = same(L, x, y)
            if d:
                return d
        return None
    if a[1] != b[1]:
        return 'text %r vs %r' % (a[1], b[1])
    d = O.first_diff_equiv(a[2], b[2])
    if d is not None:
        return 'settings at %d: %r vs %r' % (d, a[2][d], b[2][d])
    if a[3] != b[3]:
        return 'str() %r vs %r' % (a[3], b[3])
    if a[4] != b[4]:
        return 'to_str flags differ'
    if a[5] != b[5]:
        return 'format(spec) %r vs %r' % (a[5], b[5])
    return None


def types_ok(L, r, want):
    if is_ansi(L, r):
        return isinstance(r, want)
    if isinstance(r, (list, tuple)):
        return all(types_ok(L, x, want) for x in r)
    return True


def call_op(L, ex, op, recv, inplace_mode):
    """execute op on the given receiver object (not via the pool)"""
    m = op['m']
    a = [ex.dec(x) for x in op.get('a', [])]
    k = {kk: ex.dec(v) for kk, v in op.get('k', {}).items()}
    k.pop('inplace', None)
    if m == 'getitem':
        return recv[a[0]]
    if m == 'add':
        return recv + a[0]
    if m == 'iadd':
        recv += a[0]
        return recv
    if m == 'iter':
        return list(recv)
    if m == 'str':
        return str(recv)
    if m in ('format',):
        return format(recv, a[0])
    if m == 'fstring':
        return ('{:' + a[0] + '}').format(recv)
    if m == 'len':
        return len(recv)
    if m == 'contains':
        return a[0] in recv
    if m == 'eq':
        return None      # == is class-specific by design (AnsiStr compares renderings)
    if m == 'repr':
        return None
    if m == 'join':
        return type(recv).join(*a)
    r = getattr(recv, m)(*a, **k)
    if inplace_mode and m in INPLACE_ONLY:
        return recv
    return r


def twin_op(ctx, mon, rng, ex, hg, exercised):
    L = ctx.L
    if rng.random() < 0.06:
        ri = hg.pick_val()
        if ri is None:
            return
        op = {'m': rng.choice(['len', 'encode', 'is_formatting_parsable', 'is_formatting_valid', 'is_optimizable']), 'r': ri}
    else:
        op = hg.mk_op(rng.choice(TWIN_KINDS))
    if op['m'] in ('new', 'copy', 'pycopy', 'assign_str', 'set_ansi_str'):
        return
    if op['m'] == 'join':
        src = None
    else:
        src = ex.pool[op['r']]
    with mon.quiet():
        if src is not None:
            r1 = L.AnsiString(src)
            r2 = L.AnsiStr(src)
            o = O.observe(r1)
        else:
            r1 = L.AnsiString()
            r2 = L.AnsiStr()
            o = O.observe(r1)
    mname = {'getitem': '__getitem__', 'add': '__add__', 'iadd': '__iadd__', 'iter': '__iter__', 'format': '__format__',
             'fstring': '__format__', 'contains': '__contains__', 'len': '__len__'}.get(op['m'], op['m'])
    try:
        res1 = call_op(L, ex, op, r1, True)
        e1 = None
    except Exception as e:
        res1, e1 = None, e
    try:
        res2 = call_op(L, ex, op, r2, False)
        e2 = None
    except Exception as e:
        res2, e2 = None, e
    exercised.add(mname)
    ctx.ev('twin')
    ctx.sig('twin:' + mname)
    det = {'op': op, 'receiver': o.describe()}
    if (e1 is None) != (e2 is None) or (e1 is not None and type(e1) is not type(e2)):
        ctx.violation('twin-raise-differs', dict(det, AnsiString=repr(e1), AnsiStr=repr(e2)), mech='twin-raise:' + mname)
        return
    if e1 is not None:
        return
    with mon.quiet():
        try:
            d1 = describe_result(L, res1)
            d2 = describe_result(L, res2)
        except Exception as e:
            ctx.violation('twin-result-unusable', dict(det, error=repr(e)), mech='twin-unusable:' + mname)
            return
        diff = same(L, d1, d2)
        if o.styled() or any(isinstance(x, (list, dict)) for x in op.get('a', [])):
            ctx.nontriv((mname, o.key(), repr(op.get('a')), repr(op.get('k'))))
            if len(ctx.samples) < 10:
                ctx.sample(det)
        if diff:
            ctx.violation('twin-result-differs', dict(det, what=diff), mech='twin-differs:' + mname)
            return
        if not types_ok(L, res2, L.AnsiStr):
            ctx.violation('twin-result-type', dict(det, got=repr(type(res2))), mech='twin-type:' + mname)
        if mname in INPLACE_ONLY or True:
            # the AnsiStr receiver itself is immutable: unchanged after the call
            o2 = O.observe(r2)
            if o2.text != o.text or O.first_diff_exact(o.texts, o2.texts) is not None:
                if op['m'] != 'iadd':
                    ctx.violation('ansistr-receiver-changed', det, mech='ansistr-mutated:' + mname)


def copy_protocol_probe(ctx, mon, rng, ex):
    """copy.copy / copy.deepcopy / pickle of an AnsiStr: still an AnsiStr with the text, settings and renderings of the
    original, and - "always" - a str payload equal to its own rendering"""
    import copy
    import pickle
    L = ctx.L
    vals = ansi_values(L, ex)
    if not vals:
        return
    v = rng.choice(vals)
    how = rng.choice(['copy', 'deepcopy', 'pickle0', 'pickle2', 'pickle5'])
    with mon.quiet():
        try:
            a = L.AnsiStr(v)
            o = O.observe(a)
        except O.ObsError:
            return
        det = {'how': how, 'value': o.describe()}
        ctx.ev('copy-protocol')
        ctx.sig('copy-protocol:' + how)
        if o.styled():
            ctx.nontriv(('copyproto', how, o.key()))
        try:
            if how == 'copy':
                b = copy.copy(a)
            elif how == 'deepcopy':
                b = copy.deepcopy({'k': [a]})['k'][0]
            else:
                b = pickle.loads(pickle.dumps(a, int(how[6:])))
            ob = O.observe(b)
            payload = str.__str__(b)
            rend = b.to_str()
        except Exception as e:
            ctx.violation('copy-protocol-raised', dict(det, error=repr(e)), mech='copy-protocol:' + how.rstrip('025'))
            return
        bad = None
        if type(b) is not L.AnsiStr:
            bad = 'type %r' % (type(b),)
        elif ob.text != o.text or O.first_diff_exact(o.texts, ob.texts) is not None:
            bad = 'text/settings differ: %r' % (ob.describe(),)
        elif payload != rend:
            bad = 'payload %r != rendering %r' % (payload, rend)
        elif payload != str.__str__(a) or format(b, '') != format(a, '') or ('%s' % b) != ('%s' % a):
            bad = 'payload %r != payload of the original %r' % (payload, str.__str__(a))
        if bad:
            ctx.violation('copy-protocol-payload', dict(det, what=bad), mech='copy-protocol:' + how.rstrip('025'))


def payload_after_source_edit(ctx, mon, rng, ex):
    """"The str payload of an AnsiStr equals its rendering" holds for as long as the AnsiStr lives: an AnsiStr made
    from a mutable AnsiString (conversion, + / += / join with an empty or non-empty AnsiStr receiver, replace with an
    AnsiString replacement) is re-observed after that AnsiString has been edited in place."""
    L = ctx.L
    muts = [v for v in ex.pool if isinstance(v, L.AnsiString)]
    with mon.quiet():
        try:
            if muts and rng.random() < 0.7:
                m = rng.choice(muts).copy()
            else:
                m = L.AnsiString(rng.choice(['piece', 'a b', 'x']), rng.choice(['red', 'bold', 'bg_blue']))
            recv = rng.choice([L.AnsiStr(''), L.AnsiStr(''), L.AnsiStr('', 'red'), L.AnsiStr('q'), L.AnsiStr('q', 'italic')])
            O.observe(m)
        except Exception:
            return
    how = rng.choice(['convert', 'add', 'iadd', 'join1', 'join2', 'replace', 'radd', 'format'])
    ctx.ev('payload-after-source-edit')
    ctx.sig('payload-after-source-edit:%s:%s' % (how, 'empty' if not recv.base_str else 'text'))
    det = {'how': how, 'receiver': repr(str.__str__(recv)), 'source': None}
    try:
        det['source'] = O.observe(m).describe()
        if how == 'convert':
            a = L.AnsiStr(m)
        elif how == 'add':
            a = recv + m
        elif how == 'iadd':
            a = recv
            a += m
        elif how == 'join1':
            a = recv.join([m])
        elif how == 'join2':
            a = L.AnsiStr('').join([m, m])
        elif how == 'replace':
            a = L.AnsiStr('q').replace('q', m)
        elif how == 'radd':
            a = L.AnsiStr(m + recv)
        else:
            a = L.AnsiStr(m).ljust(0)
        if not isinstance(a, L.AnsiStr):
            return
        before = (str.__str__(a), a.to_str(), a.base_str)
        # in-place edits of the source only
        for _ in range(rng.randint(1, 2)):
            k = rng.randrange(4)
            if k == 0:
                m.apply_formatting('blink')
            elif k == 1:
                m.assign_str(m.base_str + 'ZZ')
            elif k == 2:
                m += L.AnsiString('!', 'bg_cyan')
            else:
                m.clear_formatting()
        after = (str.__str__(a), a.to_str(), a.base_str)
    except Exception as e:
        ctx.grey('payload-after-source-edit raised %s' % type(e).__name__)
        return
    ctx.nontriv(('payload-edit', how, before[0]))
    if after[0] != after[1]:
        ctx.violation('payload-differs-from-rendering-after-source-edit',
                      dict(det, payload=after[0], rendering=after[1], payload_before=before[0]), mech='payload-after-source-edit')
    elif after != before:
        ctx.violation('AnsiStr-changed-by-source-edit', dict(det, before=before, after=after), mech='payload-after-source-edit')


def ctor_twin(ctx, mon, rng, ex):
    L = ctx.L
    kind = rng.choice(['str', 'ansi', 'AnsiString', 'AnsiStr'])
    vals = ansi_values(L, ex)
    if kind == 'str':
        src = gen_text(rng, 10)
    elif kind == 'ansi':
        src = gen_ansi_input(rng, 10)
    else:
        if not vals:
            return
        v = rng.choice(vals)
        with mon.quiet():
            src = L.AnsiString(v) if kind == 'AnsiString' else L.AnsiStr(v)
    settings = [ex.dec(s) for s in gen_settings(rng, rng.choice(['wf', 'mixed']))] if rng.random() < 0.65 else []
    try:
        a = L.AnsiString(src, *settings)
        e1 = None
    except Exception as e:
        a, e1 = None, e
    try:
        b = L.AnsiStr(src, *settings)
        e2 = None
    except Exception as e:
        b, e2 = None, e
    ctx.ev('ctor-twin')
    ctx.sig('ctor:%s:%s' % (kind, 'settings' if settings else 'no-settings'))
    det = {'source_kind': kind, 'source': src if isinstance(src, str) and not is_ansi(L, src) else O.observe(src).describe(),
           'settings': repr(settings)[:200]}
    if (e1 is None) != (e2 is None) or (e1 is not None and type(e1) is not type(e2)):
        ctx.violation('ctor-raise-differs', dict(det, AnsiString=repr(e1), AnsiStr=repr(e2)), mech='ctor-raise:' + kind)
        return
    if e1 is not None:
        return
    with mon.quiet():
        d1 = describe_result(L, a)
        d2 = describe_result(L, b)
        diff = same(L, d1, d2)
        if settings or d1[2] and any(d1[2]):
            ctx.nontriv(('ctor', kind, d1[1], repr(d1[2]), repr(settings)[:100]))
        if diff:
            ctx.violation('ctor-differs', dict(det, what=diff), mech='ctor-differs:%s:%s' % (kind, 'settings' if settings else 'plain'))
        if not isinstance(b, L.AnsiStr):
            ctx.violation('ctor-type', det, mech='ctor-type')


def drive(ctx, mon, tier, only_case=None):
    L = ctx.L
    sz = tier_sizes(tier)
    exercised = set()

    def body(rng, ex, case):
        hg = history(L, rng, ex, rng.randint(1, 6), sz['maxlen'], 'mixed' if rng.random() < 0.25 else 'wf', WEIGHTS,
                     esc=rng.random() < 0.1)
        if rng.random() < 0.25:
            # receivers whose base text holds a literal escape sequence (both classes must treat it as text)
            with mon.quiet():
                for v in esc_seam_values(L, rng, 2):
                    ex.pool.append(v)
        for _ in range(4):
            ctor_twin(ctx, mon, rng, ex)
        for _ in range(14):
            twin_op(ctx, mon, rng, ex, hg, exercised)
        for _ in range(2):
            copy_protocol_probe(ctx, mon, rng, ex)
        for _ in range(2):
            payload_after_source_edit(ctx, mon, rng, ex)

    run_cases(ctx, mon, CASES[tier], body, only_case=only_case)
    sh = shared_methods(L)
    ctx.extra['shared_methods'] = sh
    ctx.extra['shared_methods_not_exercised_by_twin_in_this_shard'] = sorted(set(sh) - exercised)
