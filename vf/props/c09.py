"""C09 - operations terminate, fail cleanly, and keep reachable values consistent."""
import re

from .. import obs as O
from ..monitor import StepBudgetExceeded
from .common import trie_case, Contract, ansi_values, history, run_cases, tier_sizes, is_ansi, FLAG_COMBOS
from .c08 import Snap
from .c05 import self_insertion, seam_workshop
from .c06 import restart_workshop
from .c07 import remove_workshop

PROP = 'C09'
STEP_BUDGET = 20000000
BOUND_LEN = 64          # stated input bound for the bounded-progress claim
RULE = ('case = every outermost public call of a hostile random history (documented argument types incl. empty '
        'strings/patterns, zero/negative/huge widths, far indices, ESC-bearing texts, invalid setting names, '
        'self-containing lists, ill-formed verbatim settings) under the step-budget monitor (executed library '
        'lines per call, sys.monitoring LINE events) with WITH_ASSERTIONS=True.  Judged: budget not exceeded; a '
        'raised exception is TypeError/ValueError/(IndexError for an int index)/the type str raises for the same '
        'call; receiver and arguments unchanged after a raise; after a successful call the health probe (str, 8 '
        'to_str combinations, ansi_settings_at(-1..len), slices, s[:k]+s[k:], +, join, find_settings, copy()==s) '
        'does not raise.  Non-trivial: raising call or history of >= 2 operations; distinct = distinct '
        '(method, outcome, argument classes).')
ASSUMPTIONS = ['termination is restated as bounded progress: <= 2*10^7 executed library lines per call when receiver '
               'and arguments are <= 64 characters (longer inputs exceeding the budget are grey)', 'invalid regular expressions are grey (re.error is not judged)']
MIN_EVAL = 500
CASES = {'quick': 200, 'thorough': 1650}
WEIGHTS = {'replace': 4, 'split': 3, 'pad': 4, 'format': 3, 'to_str': 1.5, 'new_ansi': 2.5, 'set_ansi_str': 1,
           'simplify': 1.5, 'assign_str': 2, 'iadd': 5, 'add': 5, 'remove': 6, 'format_matching': 2,
           'unformat_matching': 2, 'match_apply': 0.6, 'iter': 0.8, 'eq': 0.6, 'contains': 0.6}
ALLOWED = (TypeError, ValueError)
LEN_CAP = 3000


def str_raises(call, L):
    """type of the exception str raises for the same call on the base text (None if it does not raise)"""
    recv = call.recv
    if recv is None or not is_ansi(L, recv):
        return None
    name = {'__getitem__': '__getitem__', '__contains__': '__contains__', '__add__': '__add__'}.get(call.name, call.name)
    fn = getattr(str, name, None)
    if fn is None:
        return None
    args = [a.base_str if is_ansi(L, a) else a for a in call.args]
    kw = {k: v for k, v in call.kwargs.items() if k not in ('inplace', 'extend_formatting')}
    try:
        fn(recv.base_str, *args, **kw)
    except Exception as e:
        return type(e)
    return None


class CleanContract(Contract):
    prop = PROP
    methods = {('*', '*')}

    def pre(self, call):
        L = self.L
        snaps = []
        vals = [call.recv] + list(call.args) + list(call.kwargs.values())
        seen = []
        for a in vals:
            if call.name == '__init__' and a is call.recv:
                continue
            if is_ansi(L, a) and not any(a is s for s in seen) and len(a.base_str) <= LEN_CAP:
                seen.append(a)
                try:
                    snaps.append(Snap(L, a))
                except Exception:
                    pass    # already damaged before the call: judged when it was produced
        return snaps

    def post(self, call, snaps, result, exc):
        ctx = self.ctx
        L = self.L
        ctx.ev('call')
        outcome = 'ok' if exc is None else type(exc).__name__
        ctx.sig('%s.%s:%s' % (call.cls, call.name, outcome))
        if exc is not None:
            ctx.nontriv((call.cls, call.name, outcome, tuple(type(a).__name__ for a in call.args)))
            if len(ctx.samples) < 10:
                ctx.sample({'call': call.describe(), 'raised': repr(exc)[:160]})
            det = {'error': repr(exc)[:300]}
            if isinstance(exc, StepBudgetExceeded):
                sizes = [len(a) for a in [call.recv] + list(call.args) if isinstance(a, str) or is_ansi(L, a)]
                if any(n > BOUND_LEN for n in sizes):
                    ctx.grey('step-budget-on-input-longer-than-%d' % BOUND_LEN)
                    return
                ctx.violation('step-budget-exceeded', dict(det, sizes=sizes), call, mech='no-termination:' + call.name)
                ctx.extra['n_budget_violations'] = ctx.extra.get('n_budget_violations', 0) + 1
                return
            ok = isinstance(exc, ALLOWED)
            if not ok and isinstance(exc, IndexError) and call.name == '__getitem__' and call.args and isinstance(
                    call.args[0], int):
                n = len(call.recv.base_str)
                ok = not (-n <= call.args[0] < n)
            if not ok and isinstance(exc, re.error):
                ctx.grey('invalid-regex')
                ok = True
            if not ok:
                t = str_raises(call, L)
                ok = t is not None and isinstance(exc, t)
            if not ok:
                ctx.violation('undocumented-exception', det, call,
                              mech='exception:%s:%s' % (call.name, type(exc).__name__))
            for sn in snaps:
                ctx.ev('unchanged-after-raise')
                try:
                    d = sn.diff(L)
                except Exception as e:
                    d = 'value unusable after the raise: %r' % (e,)
                if d:
                    ctx.violation('state-changed-after-raise', dict(det, what=d, before=sn.o.describe()), call,
                                  mech='changed-after-raise:' + call.name)
            return
        # success: health of receiver and results
        targets = []
        if call.recv is not None and is_ansi(L, call.recv):
            targets.append(call.recv)
        if is_ansi(L, result):
            targets.append(result)
        elif isinstance(result, (list, tuple)):
            targets += [x for x in result if is_ansi(L, x)][:6]
        for t in targets:
            health(ctx, L, t, call)


def health(ctx, L, v, call=None):
    ctx.ev('health-probe')
    n = len(v.base_str)
    step = 'start'
    try:
        if n > LEN_CAP:
            step = 'str'
            str(v)
            v[0:5]
            v[n - 1]
            v.ansi_settings_at(n - 1)
            return
        step = 'str'
        str(v)
        repr(v)
        for opt, rs, re_ in FLAG_COMBOS:
            step = 'to_str(%s,%s,%s)' % (opt, rs, re_)
            v.to_str(optimize=opt, reset_start=rs, reset_end=re_)
        for i in range(-1, n + 1):
            step = 'ansi_settings_at(%d)' % i
            v.ansi_settings_at(i)
            v.settings_at(i)
        step = 'slice[0:len]'
        v[0:n]
        ks = sorted({0, n // 2, n, max(0, n - 1), 1 if n else 0})
        for k in ks:
            if k < n:
                step = 'index[%d]' % k
                v[k]
            step = 's[:%d]+s[%d:]' % (k, k)
            v[:k] + v[k:]
        step = "+ 'x'"
        v + 'x'
        step = 'join'
        type(v).join('x', v, 'x')
        step = 'find_settings'
        st = v.ansi_settings_at(0)
        v.find_settings(list(st[:1]), 0, None)
        v.find_settings(list(st[:1]), 0, None, True)
        step = 'copy==self'
        c = L.AnsiString(v)
        if isinstance(v, L.AnsiString) and not (c == v):
            raise AssertionError('copy != self')
        step = 'is_formatting'
        v.is_formatting_valid()
        v.is_formatting_parsable()
        step = 'iterate'
        if n <= 40:
            list(v)
    except Exception as e:
        ctx.violation('health-probe-raised', {'step': step, 'error': repr(e)[:300], 'text': v.base_str[:120]}, call,
                      mech='unhealthy-after:%s' % (call.name if call is not None else '?'))


def contracts(ctx, mon):
    ctx.mon = mon
    return [CleanContract(ctx)]


HOSTILE_SETTINGS = ['notacolor', '-1', 'rgb()', 'ul_rgb(T)', 'rgb(1,2)', 'color256()', 'bold;;red', ';;;', '',
                    -1, -5, 256, 10 ** 9, {'py': 'float'}, {'py': 'None'}, {'py': 'bytes'}, {'py': 'dict'},
                    {'selflist': ['bold']}, 'rgb(0x1FFFFFF)', 'bg_rgb(256,256,256)', 'fg_colour256(0x100)',
                    '[', {'S': 'x\x1b[0m'}, 'bold red', 'RED;;', ' bold', 'rgb(1, 2, 3', 'color256(-1)']


def hostile_args(rng, ex, L, hg):
    """explicit hostile calls on pool values (documented types, awkward values)"""
    vals = ansi_values(L, ex)
    if not vals:
        return
    # stay within the stated input bound (64 characters) most of the time: the step budget claim is about those
    short = [x for x in vals[-8:] if len(x.base_str) <= BOUND_LEN]
    v = rng.choice(short) if short and rng.random() < 0.9 else rng.choice(vals[-6:])
    ri = [i for i, p in enumerate(ex.pool) if p is v][0]
    n = len(v.base_str)
    mut = isinstance(v, L.AnsiString)
    choices = [
        {'m': 'replace', 'r': ri, 'a': ['', rng.choice(['x', '', {'$': ri}])] + ([rng.choice([-1, 0, 1, 3])] if rng.random() < 0.5 else [])},
        {'m': 'replace', 'r': ri, 'a': [v.base_str[:1], {'$': ri}]},
        {'m': 'split', 'r': ri, 'a': ['']},
        {'m': 'rsplit', 'r': ri, 'a': ['', 1]},
        {'m': 'partition', 'r': ri, 'a': ['']},
        {'m': 'rpartition', 'r': ri, 'a': ['']},
        {'m': 'count', 'r': ri, 'a': ['']},
        {'m': 'center', 'r': ri, 'a': [rng.choice([0, -7, n, 3000]), rng.choice(['ab', '', ' '])]},
        {'m': 'ljust', 'r': ri, 'a': [rng.choice([0, -7, 3000])]},
        {'m': rng.choice(['ljust', 'rjust']), 'r': ri, 'a': [n + 2, rng.choice(['ab', ''])],
         'k': ({'inplace': True} if mut and rng.random() < 0.5 else {})},
        {'m': 'zfill', 'r': ri, 'a': [rng.choice([0, -1, 2500])]},
        # a width no string can have (str raises OverflowError for the same call): nothing may have been moved yet
        {'m': rng.choice(['ljust', 'rjust', 'center', 'zfill']), 'r': ri, 'a': [10 ** 30],
         'k': ({'inplace': True} if mut and rng.random() < 0.7 else {})},
        {'m': 'getitem', 'r': ri, 'a': [rng.choice([10 ** 6, -10 ** 6, n, -n - 1])]},
        {'m': 'getitem', 'r': ri, 'a': [{'sl': [None, None, rng.choice([2, -1, 0])]}]},
        {'m': 'getitem', 'r': ri, 'a': ['a']},
        {'m': 'apply_formatting', 'r': ri, 'a': [rng.choice(HOSTILE_SETTINGS), rng.choice([0, -10 ** 6, n]), rng.choice([None, 10 ** 6, 0])]},
        {'m': 'apply_formatting', 'r': ri, 'a': [[rng.choice(HOSTILE_SETTINGS), 'bold']], 'k': {'topmost': rng.random() < 0.5}},
        {'m': 'remove_formatting', 'r': ri, 'a': [rng.choice(HOSTILE_SETTINGS)]},
        {'m': 'find_settings', 'r': ri, 'a': [rng.choice(HOSTILE_SETTINGS), rng.choice([0, n, 10 ** 6]), rng.choice([None, -10 ** 6, 0])]},
        {'m': 'new', 'cls': rng.choice(['AnsiString', 'AnsiStr']), 'a': [rng.choice(['x', {'$': ri}]), rng.choice(HOSTILE_SETTINGS)]},
        {'m': 'new', 'cls': rng.choice(['AnsiString', 'AnsiStr']), 'a': [rng.choice([5, {'py': 'None'}, {'py': 'bytes'}])]},
        {'m': 'format', 'r': ri, 'a': [rng.choice(['+5', ' <5', 'ab<5', '<5:notacolor', ':rgb()', '^3000', '<-1', ':[', '\x1b<5', '<5:;;', ':-1', '>99999999999999999999', '\n<5', '>5\n',
                                                           '9223372036854775808:red'])]},
        {'m': 'to_str', 'r': ri, 'a': [rng.choice(['>5:red', 'x', ''])], 'k': {'optimize': False, 'reset_start': True}},
        {'m': 'format_matching', 'r': ri, 'a': [rng.choice(['', '(', '[', 'a|', '.*']), 'bold'], 'k': {'regex': rng.random() < 0.6, 'count': rng.choice([-1, 0, 1])}},
        {'m': 'unformat_matching', 'r': ri, 'a': [rng.choice(['', 'a*', '.']), rng.choice(HOSTILE_SETTINGS)], 'k': {'regex': True}},
        {'m': 'join', 'cls': rng.choice(['AnsiString', 'AnsiStr']), 'a': rng.choice([[], [5], [{'$': ri}, 5], ['', '']])},
        {'m': 'add', 'r': ri, 'a': [rng.choice([5, {'py': 'None'}, '\x1b[', '\x1b[31'])]},
        {'m': 'iadd', 'r': ri, 'a': [rng.choice([5, '\x1b[1', {'$': ri}])]},
        {'m': 'endswith', 'r': ri, 'a': [{'T': ['a', v.base_str[-1:]]}]},
        {'m': 'index', 'r': ri, 'a': ['\x00zz']},
        {'m': 'rindex', 'r': ri, 'a': ['\x00zz', -3, 10 ** 6]},
        {'m': 'expandtabs', 'r': ri, 'a': [rng.choice([-1, 0, 200])]},
        {'m': 'strip', 'r': ri, 'a': ['']},
        {'m': 'removeprefix', 'r': ri, 'a': ['']},
        {'m': 'removesuffix', 'r': ri, 'a': ['']},
        {'m': 'splitlines', 'r': ri, 'a': [True]},
        {'m': 'encode', 'r': ri, 'a': [rng.choice(['utf-8', 'ascii', 'no-such-codec'])]},
        {'m': 'settings_at', 'r': ri, 'a': [rng.choice([-10 ** 6, 10 ** 6])]},
        {'m': 'eq', 'r': ri, 'a': [rng.choice([5, 'x', {'py': 'None'}])]},
        {'m': 'contains', 'r': ri, 'a': [rng.choice([5, '', {'py': 'None'}])]},
    ]
    if mut:
        choices += [
            {'m': 'assign_str', 'r': ri, 'a': [rng.choice(['', 'x\x1b[1m', v.base_str[:40] * 2])]},
            {'m': 'set_ansi_str', 'r': ri, 'a': [rng.choice(['\x1b[', '\x1b[38;5m', '\x1b[1;;;m\x1b[mX', '\x1b[38;2;1m y', '\x1b[999999999999mz'])]},
            {'m': 'clip', 'r': ri, 'k': {'start': rng.choice([10 ** 6, -10 ** 6]), 'end': rng.choice([None, -10 ** 6]), 'inplace': True}},
            {'m': 'center', 'r': ri, 'a': [n + 3, 'ab'], 'k': {'inplace': True}},
            {'m': 'replace', 'r': ri, 'a': ['', 'x'], 'k': {'inplace': True}},
        ]
    ex.run(rng.choice(choices))


def drive(ctx, mon, tier, only_case=None):
    L = ctx.L
    sz = tier_sizes(tier)

    def body(rng, ex, case):
        if case == 0:
            # every history of up to 2 (quick) / 3 (thorough) apply/remove operations, each call judged (documented
            # error or success; consistency self-check and the health probe on every value produced)
            def pads(v, p):
                v.rjust(4)
                v.center(6, '*')
                w = v.rjust(5, inplace=True)
                w.rjust(7, '.', inplace=True)
                with mon.quiet():
                    z = L.AnsiString(v)
                z.zfill(5, inplace=True)
                z.center(8, inplace=True)
                format(z, '>10')
            trie_case(ctx, mon, tier, 2, 3, judged_walk=True, visit=pads, visit_depth=2)
            return
        profile = rng.choice(['wf', 'mixed', 'hostile', 'hostile'])
        esc = rng.random() < 0.3
        if ctx.extra.get('n_budget_violations', 0) >= 3:
            ctx.extra['stopped_after_budget_violations'] = True
            return
        try:
            hg = history(L, rng, ex, rng.randint(2, sz['nops']), sz['maxlen'], profile, WEIGHTS, esc=esc)
            for _ in range(rng.randint(2, 8)):
                hostile_args(rng, ex, L, hg)
                if rng.random() < 0.5:
                    ex.run(hg.step())
            if rng.random() < 0.5:
                self_insertion(ctx, mon, rng, L)
                seam_workshop(ctx, mon, rng, L)
            if rng.random() < 0.5:
                restart_workshop(ctx, mon, rng, L)
                remove_workshop(ctx, mon, rng, L)
        except StepBudgetExceeded:
            ctx.aborted['step-budget'] += 1
        if len(ex.pool) >= 2:
            ctx.nontriv(('history', case, ctx.shard))

    run_cases(ctx, mon, CASES[tier], body, only_case=only_case)
