"""C19 - control-sequence parser is lossless; cursor/erase helpers emit one sequence."""
from .common import run_cases

PROP = 'C19'
RULE = ('case = one ParsedAnsiControlSequenceString(s, allow_empty_terminator, acceptable_terminators) over strings '
        'of length 0..24 from {ESC, [, digits, ;, ?, space, m, H, J, ~, @, a, e-acute; C0/DEL/C1 characters; non-ASCII '
        'digit, letter, space and separator look-alikes inside sequence bodies} biased to adjacent sequences, '
        'sequences at start/end and unterminated tails, for allow_empty in {T,F} x acceptable in {None,\'m\',\'mHJ\'}: '
        'formatted_str, str(), repr() and manual re-insertion of .sequences into .unformatted_str must equal s '
        '(every input); tokenisation must equal the reference tokenizer (outside the grey domain).  Helpers: 13 '
        'cursor/erase/scroll functions x n in {0,1,7,10^6,-3}: exact ESC [ args final, and the parser reads it as '
        'one sequence with empty text.  Non-trivial: >= 1 recognised sequence followed by text; distinct = distinct '
        '(string, flags).')
ASSUMPTIONS = ['control sequence = ESC [ + bytes 0x20-0x3f + one final byte 0x40-0x7e',
               'bodies containing other bytes (C0 controls, ESC, > 0x7e) are grey for the tokenisation clause only']
MIN_EVAL = 1000
CASES = {'quick': 3200, 'thorough': 48000}
ESC = '\x1b'
ALPHA = [ESC, ESC + '[', ESC + '[', '[', '1', '2', '0', ';', '?', ' ', 'm', 'm', 'H', 'J', '~', '@', 'a', 'é', 'x',
         ESC + '[m', ESC + '[1;31m', ESC + '[2J', ESC + '[?25h']
HOSTILE = ['\n', '\x7f', '\x00', 'ÿ', '\x9b']
# characters which str.isdigit()/isdecimal()/isalpha()/isspace() accept but which are not parameter, intermediate or
# final bytes: inside ESC [ ... they end the attempt like any other character outside 0x20-0x7e
LOOKALIKE = ['\u0663', '\uff11', '\u00b2', '\u096a', '\uff4d', '\u00a0', '\u2003', '\uff1b', '\u217f', '\U0001d7d9']


def gen_string(rng):
    n = rng.randint(0, 12)
    parts = [rng.choice(ALPHA) for _ in range(n)]
    if rng.random() < 0.1:
        parts.insert(rng.randint(0, len(parts)), rng.choice(HOSTILE))
    if rng.random() < 0.12:
        # a look-alike where a parameter byte, a separator or the final byte would be
        c = rng.choice(LOOKALIKE)
        parts.insert(rng.randint(0, len(parts)), rng.choice([
            ESC + '[' + c + 'm', ESC + '[1;' + c + 'H', ESC + '[' + c, ESC + '[3' + c + '1m', ESC + '[1' + c + ESC + '[4m', c]))
    if rng.random() < 0.2:
        parts.append(rng.choice([ESC + '[', ESC + '[1', ESC + '[1;3', ESC, ESC + '[?']))
    s = ''.join(parts)
    return s[:24]


def ref_tokenize(s, allow_empty, acceptable):
    """(unformatted, {idx: [(body, final)]}, grey)"""
    out = []
    seqs = {}
    n = len(s)
    i = 0
    grey = None
    while i < n:
        if s.startswith(ESC + '[', i):
            j = i + 2
            while j < n and 0x20 <= ord(s[j]) <= 0x3f:
                j += 1
            if j < n and 0x40 <= ord(s[j]) <= 0x7e:
                final = s[j]
                end = j + 1
            elif j >= n:
                final = ''
                end = n
            else:
                # a character that is neither a parameter/intermediate byte nor a final byte (another ESC, a C0
                # control, DEL, non-ASCII) ends the attempt: nothing was recognised, the characters stay text and the
                # offending character is looked at again (it may begin the next sequence)
                out.extend(s[i:j])
                i = j
                continue
            body = s[i + 2:j]
            ok = (final != '' or allow_empty) and (acceptable is None or final in acceptable)
            if ok:
                seqs.setdefault(len(out), []).append((body, final))
            else:
                out.extend(s[i:end])
            i = end
        else:
            out.append(s[i])
            i += 1
    return ''.join(out), seqs, grey


def reinsert(unf, seqs):
    out = []
    last = 0
    for k in sorted(seqs):
        out.append(unf[last:k])
        for body, final in seqs[k]:
            out.append(ESC + '[' + body + final)
        last = k
    out.append(unf[last:])
    return ''.join(out)


def check_string(ctx, L, s, allow_empty, acceptable):
    det = {'input': s, 'allow_empty_terminator': allow_empty, 'acceptable_terminators': acceptable}
    ctx.ev('parse')
    try:
        if acceptable is None and allow_empty is True:
            p = L.ParsedCS(s)
        else:
            p = L.ParsedCS(s, allow_empty, acceptable)
        unf = p.unformatted_str
        seqs = {k: [(v.sequence, v.terminator) for v in lst] for k, lst in p.sequences.items()}
    except Exception as e:
        ctx.violation('constructor-raised', dict(det, error=repr(e)), mech='csparse-raised')
        return
    det.update({'unformatted_str': unf, 'sequences': {str(k): v for k, v in seqs.items()}})
    ctx.sig('flags:%s:%s' % (allow_empty, acceptable))
    # lossless clauses (every input)
    try:
        f = p.formatted_str
        a = str(p)
        b = repr(p)
    except Exception as e:
        ctx.violation('accessor-raised', dict(det, error=repr(e)), mech='csparse-accessor-raised')
        return
    if f != s:
        ctx.violation('formatted_str-not-input', dict(det, formatted_str=f), mech='csparse-formatted-str')
        return
    if a != s or b != s:
        ctx.violation('str-or-repr-not-input', dict(det, str=a, repr=b), mech='csparse-str-repr')
        return
    if reinsert(unf, seqs) != s:
        ctx.violation('reinsertion-not-input', dict(det, reinserted=reinsert(unf, seqs)), mech='csparse-reinsert')
        return
    # reading the accessors (also for removal points that hold no sequence) must not change the object
    for k in (0, len(unf) // 2, len(unf), len(unf) + 3, -1):
        try:
            p.sequences[k]
        except KeyError:
            pass
        except Exception as e:
            ctx.violation('sequences-lookup-raised', dict(det, key=k, error=repr(e)), mech='csparse-lookup')
            return
        p.sequences.get(k)
    seqs2 = {k: [(v.sequence, v.terminator) for v in lst] for k, lst in p.sequences.items() if lst}
    if p.formatted_str != s or str(p) != s or p.unformatted_str != unf or seqs2 != seqs:
        ctx.violation('changed-by-reading', dict(det, formatted_str=p.formatted_str), mech='csparse-changed-by-reading')
        return
    if any(k < 0 or k > len(unf) for k in seqs) or list(seqs) != sorted(seqs):
        ctx.violation('sequence-index-out-of-range', det, mech='csparse-index')
        return
    eu, es, grey = ref_tokenize(s, allow_empty, acceptable)
    if grey or eu is None:
        ctx.grey(grey or 'body-byte-outside-0x20-0x3f')
        return
    ctx.ev('tokenisation')
    if es and any(k < len(eu) for k in es):
        ctx.nontriv((s, allow_empty, acceptable))
        if len(ctx.samples) < 10:
            ctx.sample(det)
    if unf != eu or seqs != es:
        ctx.violation('tokenisation-differs', dict(det, expected_unformatted=eu,
                                                   expected_sequences={str(k): v for k, v in es.items()}),
                      mech='csparse-tokenisation')
        return
    for lst in p.sequences.values():
        for v in lst:
            if v.terminator and not v.is_terminator_valid():
                ctx.violation('terminator-flag', det, mech='csparse-terminator-flag')
            if v.is_graphic() != (v.terminator == 'm'):
                ctx.violation('is_graphic-flag', det, mech='csparse-graphic-flag')


HELPERS = [('cursor_up_str', 'A', 1), ('cursor_down_str', 'B', 1), ('cursor_forward_str', 'C', 1),
           ('cursor_backward_str', 'D', 1), ('cursor_back_str', 'D', 1), ('cursor_next_line_str', 'E', 1),
           ('cursor_previous_line_str', 'F', 1), ('cursor_horizontal_absolute_str', 'G', 1),
           ('cursor_position_str', 'H', 2), ('erase_in_display_str', 'J', 1), ('erase_in_line_str', 'K', 1),
           ('scroll_up_str', 'S', 1), ('scroll_down_str', 'T', 1)]
NS = [0, 1, 7, 10 ** 6, -3, 2, 3]


def check_helper(ctx, L, rng):
    name, final, nargs = rng.choice(HELPERS)
    args = [rng.choice(NS) for _ in range(nargs)]
    fn = getattr(L.pkg, name)
    ctx.ev('helper')
    ctx.sig('helper:' + name)
    ctx.nontriv(('helper', name, tuple(args)))
    det = {'helper': name, 'args': args}
    if rng.random() < 0.3:
        # an earlier call with an equal-valued argument of another numeric type must not influence this one
        try:
            fn(*[rng.choice([float(a), bool(a) if a in (0, 1) else float(a)]) for a in args])
        except Exception:
            pass
    try:
        out = fn(*args)
    except Exception as e:
        ctx.violation('helper-raised', dict(det, error=repr(e)), mech='helper-raised:' + name)
        return
    exp = ESC + '[' + ';'.join(str(a) for a in args) + final
    if out != exp or type(out) is not str:
        ctx.violation('helper-output', dict(det, expected=exp, got=out), mech='helper-output:' + name)
        return
    p = L.ParsedCS(out)
    seqs = [(v.sequence, v.terminator) for lst in p.sequences.values() for v in lst]
    if p.unformatted_str != '' or seqs != [(';'.join(str(a) for a in args), final)] or list(p.sequences) != [0]:
        ctx.violation('helper-not-one-sequence', dict(det, unformatted=p.unformatted_str, sequences=seqs),
                      mech='helper-parse:' + name)
    # defaults: the cursor_* movement helpers default to 1
    if name.startswith('cursor_') and nargs == 1 and name not in ('cursor_horizontal_absolute_str',):
        ctx.ev('helper-default')
        if fn() != ESC + '[1' + final:
            ctx.violation('helper-default', dict(det, got=fn()), mech='helper-default:' + name)
    # package-level re-exports are the same functions
    if getattr(L.core, name) is not fn:
        ctx.violation('helper-reexport', det, mech='helper-reexport')


def contracts(ctx, mon):
    return []


def drive(ctx, mon, tier, only_case=None):
    L = ctx.L

    def body(rng, ex, case):
        if case == 0:
            import itertools
            alphabet = [ESC, '[', '1', ';', 'm', 'H', 'a']
            depth = 5 if tier == 'thorough' else 4
            nsh = ctx.extra.get('nshards', 1)
            k = 0
            n_in = 0
            with mon.quiet():
                for d in range(0, depth + 1):
                    for combo in itertools.product(alphabet, repeat=d):
                        k += 1
                        if k % nsh != ctx.shard:
                            continue
                        n_in += 1
                        s = ''.join(combo)
                        for allow in (True, False):
                            for acc in (None, 'm', 'mHJ'):
                                check_string(ctx, L, s, allow, acc)
            ctx.extra['n_small_scope_inputs'] = n_in
            ctx.extra['small_scope'] = 'exhaustive over strings of length 0..%d over %r x 6 flag combinations' % (depth, alphabet)
            return
        with mon.quiet():
            for _ in range(6):
                s = gen_string(rng)
                for allow in (True, False):
                    for acc in (None, 'm', 'mHJ'):
                        check_string(ctx, L, s, allow, acc)
            for _ in range(3):
                check_helper(ctx, L, rng)

    run_cases(ctx, mon, CASES[tier], body, only_case=only_case)
