"""C18 - SGR code-list parsing agrees with a terminal's reading of the same codes."""
import copy

from .. import sgr_model as M
from .common import run_cases
from ..gen import gen_code_list

PROP = 'C18'
RULE = ('case = one parse_graphic_sequence call (input as ;-string, list of ints, list of numeric strings or a '
        'mixed list) on 0..10 codes mixing known, unknown, clear, reset and 38/48/58 groups at every position, '
        'complete and (at the end) incomplete, with add_erroneous both ways, followed by settings_to_dict on top of '
        'a random prior state.  Judged: reduced state == reference terminal from default; results valid '
        '(add_erroneous=False); integer tokens preserved in order (add_erroneous=True); settings_to_dict(settings, '
        'old) == reference applied on top of old; arguments equal to deep copies taken before.  Non-trivial: >= 2 '
        'codes with a colour group that is not first; distinct = distinct (code list, form, flag).')
ASSUMPTIONS = ['SGR group model (DESIGN 2.1); library state mapped by effect name and display-normalised',
               'colour arguments > 255 and 38/48/58 followed by a bad selector in the middle are grey']
MIN_EVAL = 1000
CASES = {'quick': 3000, 'thorough': 36000}

EFFECT_NAME = {'BOLDNESS': M.BOLD, 'ITALICS': M.ITAL, 'UNDERLINE': M.UL, 'OVERLINE': M.OVER, 'BLINKING': M.BLINK,
               'SWAP_BG_FG': M.SWAP, 'VISIBILITY': M.VIS, 'CROSSED_OUT': M.CROSS, 'FONT_TYPE': M.FONT,
               'SPACING': M.SPACE, 'BOXING': M.BOX, 'FG_COLOR': M.FG, 'BG_COLOR': M.BG, 'UL_COLOR': M.ULC}


def lib_state(d):
    """library dict {effect: AnsiSetting} -> reference state (display-normalised)"""
    out = {}
    for k, v in d.items():
        g = EFFECT_NAME.get(k.name)
        if g is None:
            return None
        # reduce the single setting's text from default: an entry holding a group's default equals "absent"
        st, grey = M.reduce_settings([str(v)])
        if grey:
            return None
        if set(st) - {g}:
            return None
        if g in st:
            out[g] = st[g]
    return out


def check_parse(ctx, L, rng, toks=None):
    if toks is None:
        toks = gen_code_list(rng, maxn=rng.choice([0, 1, 2, 3, 5, 8, 10]))
    toks = list(toks)
    empties = rng.random() < 0.1 and bool(toks)
    body = ';'.join(str(t) for t in toks)
    if empties:
        # an empty parameter stands for 0 (reset); only expressible in the string forms
        k = rng.randint(0, len(toks))
        parts_ = [str(t) for t in toks]
        parts_.insert(k, '')
        body = ';'.join(parts_)
        toks.insert(k, 0)
    p = M.parse_params(body)
    if p.grey and p.grey != 'ext-colour-bad-selector':
        ctx.grey(p.grey)
        return
    # 38/48/58 followed by neither 5 nor 2 is an incomplete group by the statement's own words ("incomplete groups
    # ... contribute nothing"): the introducer is dropped and reading continues with the next token.  That reading is
    # what vf/sgr_model.parse_params implements; it stays grey only for terminal-appearance claims (C02).
    ref = M.apply_ops(p.ops, {})
    form = rng.choice(['str', 'ints', 'strs', 'mixed', 'tuple-of-ints'])
    if empties:
        form = rng.choice(['str', 'strs'])
    if form == 'str':
        arg = body
    elif form == 'strs' and empties:
        arg = body.split(';')
    elif form == 'ints':
        arg = list(toks)
    elif form == 'strs':
        arg = [str(t) for t in toks]
    elif form == 'tuple-of-ints':
        arg = list(toks)
    else:
        arg = [t if rng.random() < 0.5 else str(t) for t in toks]
    before = copy.deepcopy(arg)
    det = {'codes': toks, 'form': form}
    colour_not_first = any(t in (38, 48, 58) for t in toks[1:])
    # add_erroneous=False
    try:
        res = L.parse_graphic_sequence(arg, add_erroneous=False) if rng.random() < 0.7 else L.parse_graphic_sequence(arg)
    except Exception as e:
        ctx.ev('parse')
        ctx.violation('parse-raised', dict(det, error=repr(e)), mech='parse-raised')
        return
    ctx.ev('parse')
    ctx.sig('parse:%s:%s%s' % (form, 'colour-not-first' if colour_not_first else 'plain',
                               ':incomplete-tail' if p.incomplete_tail else ''))
    if len(toks) >= 2 and colour_not_first:
        ctx.nontriv((tuple(toks), form, False))
        if len(ctx.samples) < 10:
            ctx.sample(dict(det, result=[str(s) for s in res]))
    if arg != before:
        ctx.violation('argument-modified', dict(det, before=before, after=arg), mech='parse-argument-modified')
    texts = [str(s) for s in res]
    det['result'] = texts
    if not toks:
        if texts != ['0']:
            ctx.violation('empty-sequence-not-reset', det, mech='parse-empty')
        return
    for s in res:
        # (the statement does not promise parsable results - unknown codes are returned and merely contribute
        #  nothing - but every returned setting must at least be valid: digits and ';' only)
        if not s.valid:
            ctx.violation('result-not-valid', dict(det, setting=str(s)), mech='parse-result-not-valid')
            return
    got = lib_state(L.settings_to_dict(res))
    if got is None or got != ref:
        ctx.violation('state-differs-from-terminal', dict(det, expected=ref, got=got), mech='parse-state')
        return
    # add_erroneous=True: every integer token appears, in order
    arg2 = copy.deepcopy(before)
    try:
        res2 = L.parse_graphic_sequence(arg2, True)
    except Exception as e:
        ctx.violation('parse-raised', dict(det, error=repr(e), add_erroneous=True), mech='parse-raised')
        return
    ctx.ev('parse-erroneous')
    flat = []
    for s in res2:
        for x in str(s).split(';'):
            flat.append(x)
    if [int(x) for x in flat if x.strip().lstrip('-').isdigit()] != list(toks) or len(flat) != len(toks):
        ctx.violation('tokens-not-preserved', dict(det, add_erroneous=True, result=[str(s) for s in res2]),
                      mech='parse-erroneous-tokens')
    if arg2 != before:
        ctx.violation('argument-modified', dict(det, before=before, after=arg2, add_erroneous=True),
                      mech='parse-argument-modified')


def check_dict(ctx, L, rng):
    """settings_to_dict(settings, old) == reference applied on top of old"""
    old_codes = gen_code_list(rng, maxn=4, tail_incomplete=False, unknown=False, reset=False)
    new_codes = gen_code_list(rng, maxn=5, tail_incomplete=False)
    pb = M.parse_params(';'.join(str(t) for t in old_codes)) if old_codes else None
    pn = M.parse_params(';'.join(str(t) for t in new_codes)) if new_codes else None
    if (pb and pb.grey) or (pn and pn.grey):
        ctx.grey('grey-codes')
        return
    try:
        old_settings = L.parse_graphic_sequence(list(old_codes)) if old_codes else []
        old = L.settings_to_dict(old_settings)
        new_settings = L.parse_graphic_sequence(list(new_codes)) if new_codes else []
    except Exception as e:
        ctx.ev('dict')
        ctx.violation('parse-raised', {'old': old_codes, 'new': new_codes, 'error': repr(e)}, mech='parse-raised')
        return
    ref_old = M.apply_ops(pb.ops, {}) if pb else {}
    ref_new = M.apply_ops(pn.ops if pn else [], dict(ref_old))
    old_keys = list(old.items())
    ns_before = [str(s) for s in new_settings]
    try:
        out = L.settings_to_dict(new_settings, old)
    except Exception as e:
        ctx.ev('dict')
        ctx.violation('settings_to_dict-raised', {'old': old_codes, 'new': new_codes, 'error': repr(e)}, mech='dict-raised')
        return
    ctx.ev('dict')
    ctx.sig('dict:old=%d:new=%d%s' % (min(len(old_codes), 3), min(len(new_codes), 3), ':reset' if 0 in new_codes else ''))
    ctx.nontriv(('dict', tuple(old_codes), tuple(new_codes)))
    det = {'old': old_codes, 'new': new_codes}
    if list(old.items()) != old_keys or out is old:
        ctx.violation('old-dict-modified', det, mech='dict-argument-modified')
    if [str(s) for s in new_settings] != ns_before:
        ctx.violation('settings-list-modified', det, mech='dict-argument-modified')
    got = lib_state(out)
    if got is None or got != ref_new:
        ctx.violation('dict-differs-from-terminal', dict(det, expected=ref_new, got=got,
                                                         lib={k.name: str(v) for k, v in out.items()}), mech='dict-state')
        return
    # apply replaces the entry of its group, clear deletes it, reset empties: also visible without normalisation
    for k, v in out.items():
        g = EFFECT_NAME.get(k.name)
        if g is None:
            ctx.violation('dict-unknown-effect-key', dict(det, key=repr(k)), mech='dict-key')
            return
    # default-argument isolation: a call without old must start from the empty state every time
    a = L.settings_to_dict(new_settings)
    # a caller may do what it likes with the dict it got back: later calls must not see it
    a[L.param.AnsiParamEffect.ITALICS] = L.AnsiSetting('3')
    a.pop(L.param.AnsiParamEffect.FG_COLOR, None)
    e0 = L.settings_to_dict([])
    e0[L.param.AnsiParamEffect.CROSSED_OUT] = L.AnsiSetting('9')
    unk = L.settings_to_dict([L.AnsiSetting('99')], old)
    if unk is old:
        ctx.violation('result-is-the-old-dict', det, mech='dict-argument-modified')
    a = L.settings_to_dict(new_settings)
    b = L.settings_to_dict(new_settings)
    ctx.ev('dict-default-arg')
    if lib_state(a) != M.apply_ops(pn.ops if pn else [], {}) or lib_state(a) != lib_state(b):
        ctx.violation('dict-default-state-leaks', det, mech='dict-default-leak')


HOSTILE_TOKENS = ['\xb2', '\u2460', '\u0663', '\uff11', ' 1', '1 ', '+1', '-1', '--1', '1_0', '0x1', '1.5', 'x', '', '?1', '1:2',
                  '\xb9\u2075', '99999999999999999999', '\t', 'm']


def check_hostile_tokens(ctx, L, rng):
    """a ';'-separated string is accepted whatever its tokens look like: tokens that are not codes contribute
    nothing with add_erroneous=False (the known codes around them still count), and nothing raises"""
    known = [rng.choice([1, 3, 31, 44, 4]) for _ in range(rng.randint(0, 3))]
    toks = [str(k) for k in known]
    bad = rng.choice(HOSTILE_TOKENS)
    toks.insert(rng.randint(0, len(toks)), bad)
    body = ';'.join(toks)
    ctx.ev('hostile-tokens')
    ctx.sig('hostile-token')
    for flag in (False, True):
        try:
            res = L.parse_graphic_sequence(body, flag)
            L.settings_to_dict(res)
        except ValueError as e:
            if flag:
                continue    # add_erroneous=True has to represent the token as a setting; refusing it is not excluded
            ctx.violation('parse-raised', {'sequence': body, 'add_erroneous': flag, 'error': repr(e)}, mech='parse-raised')
            return
        except Exception as e:
            ctx.violation('parse-raised', {'sequence': body, 'add_erroneous': flag, 'error': repr(e)}, mech='parse-raised')
            return


def contracts(ctx, mon):
    return []


def drive(ctx, mon, tier, only_case=None):
    L = ctx.L

    def body(rng, ex, case):
        if case == 0:
            import itertools
            alphabet = [0, 1, 22, 31, 39, 38, 48, 5, 2, 7, 99]
            depth = 4 if tier == 'thorough' else 3
            nsh = ctx.extra.get('nshards', 1)
            k = 0
            n_in = 0
            with mon.quiet():
                for d in range(0, depth + 1):
                    for combo in itertools.product(alphabet, repeat=d):
                        k += 1
                        if k % nsh != ctx.shard:
                            continue
                        n_in += 1
                        check_parse(ctx, L, rng, toks=list(combo))
            ctx.extra['n_small_scope_inputs'] = n_in
            ctx.extra['small_scope'] = 'exhaustive over code lists of length 0..%d over %r' % (depth, alphabet)
            return
        with mon.quiet():
            for _ in range(8):
                check_parse(ctx, L, rng)
            for _ in range(4):
                check_dict(ctx, L, rng)
            check_hostile_tokens(ctx, L, rng)

    run_cases(ctx, mon, CASES[tier], body, only_case=only_case)
