"""C17 - settings queries are mutually consistent."""
from .. import obs as O
from .common import (trie_case, Contract, ansi_values, history, run_cases, tier_sizes, safe_obs, settings_texts, small_scope_values,
                     small_scope_on, SS_CODES)
from ..gen import gen_bound, gen_range, gen_settings

PROP = 'C17'
RULE = ('case = one ansi_settings_at / settings_at / find_settings call on a reachable value, judged against the '
        'per-character table (ansi_settings_at for all i): [] outside 0..len-1; settings_at is the ;-join; a '
        'find_settings result is accepted iff every clause of the statement holds under ONE reading of the range end '
        '(half-open [start,end) or closed [start,end], clipped to existing characters).  Selections of 1-3 settings '
        'present together / apart / absent / duplicated, bounds aimed at change points, both directions. '
        'Non-trivial: the selection occurs on some but not all characters; distinct = distinct (value, selection, '
        'range, direction).')
ASSUMPTIONS = ['the statement does not say whether the range end is included: both readings are accepted',
               'a setting "is present" at i iff an equal text is in ansi_settings_at(i) (multiplicity ignored, as the '
               'library\'s own membership test)']
MIN_EVAL = 800
CASES = {'quick': 800, 'thorough': 10800}
WEIGHTS = {'apply': 14, 'find_settings': 6, 'settings_at': 3, 'remove': 3, 'getitem': 2, 'add': 2, 'query': 0.1}


def norm(v, n, default):
    """the library's documented normalisation of a bound (slice rule for negatives; no clamp above)"""
    if v is None:
        return default
    if v < 0:
        return max(0, n + v)
    return v


class QueryContract(Contract):
    prop = PROP
    methods = {('*', 'ansi_settings_at'), ('*', 'settings_at'), ('*', 'find_settings')}

    def pre(self, call):
        # no observation before the call: these are pure queries, and a full scan beforehand would refresh any
        # state the library keeps between queries - exactly what a single query after a few mutations must not need
        return None

    def post(self, call, _none, result, exc):
        ctx = self.ctx
        L = self.L
        if exc is not None:
            return
        self._last_returned = result if call.name == 'ansi_settings_at' else None
        if call.name == 'ansi_settings_at' and isinstance(result, list):
            result = list(result)       # judge what was returned, not what later queries make of that list
        o = O.observe(call.recv)
        n = len(o.text)
        if call.name in ('ansi_settings_at', 'settings_at'):
            i = call.arg(0, 'idx')
            if not isinstance(i, int) or isinstance(i, bool):
                return
            ctx.ev(call.name)
            ctx.sig('%s:%s' % (call.name, 'inside' if 0 <= i < n else 'outside'))
            exp = o.texts[i] if 0 <= i < n else []
            if call.name == 'ansi_settings_at':
                got = [str(s) for s in result]
                if got != exp:
                    ctx.violation('ansi_settings_at', {'value': o.describe(), 'idx': i, 'expected': exp, 'got': got}, call,
                                  mech='settings-at-outside' if not 0 <= i < n else 'settings-at')
                # and it is a fresh list: mutating it must not change the value
                if isinstance(self._last_returned, list):
                    self._last_returned.append('x')
                    again = [str(s) for s in call.recv.ansi_settings_at(i)]
                    self._last_returned.pop()
                    if again != exp:
                        ctx.violation('ansi_settings_at-returns-internal-list', {'value': o.describe(), 'idx': i}, call,
                                      mech='settings-at-aliased')
            else:
                if result != ';'.join(exp):
                    ctx.violation('settings_at', {'value': o.describe(), 'idx': i, 'expected': ';'.join(exp),
                                                  'got': result}, call, mech='settings-at-join')
            if 0 <= i < n and exp:
                ctx.nontriv((call.name, o.key(), i))
            return
        # find_settings
        settings = call.arg(0, 'settings')
        start = call.arg(1, 'start', 0)
        end = call.arg(2, 'end', None)
        reverse = bool(call.arg(3, 'reverse', False))
        if not isinstance(start, int) or not (end is None or isinstance(end, int)):
            return
        G = settings_texts(L, ctx.mon, settings) if settings else []
        if G is None:
            return
        ctx.ev('find_settings')
        s0 = norm(start, n, 0)
        e0 = norm(end, n, n)
        det = {'value': o.describe(), 'settings': G, 'range': [start, end], 'normalised': [s0, e0], 'reverse': reverse,
               'result': repr(result)}
        if not (isinstance(result, tuple) and len(result) == 2):
            ctx.violation('find-result-shape', det, call, mech='find-shape')
            return
        fs, fe = result
        if not G:
            ctx.sig('find:empty-settings')
            if e0 < s0:
                ok = result == (None, None)
            else:
                # "the normalised range itself": the library normalises negatives only; a range clipped to the text
                # would be an equally good reading of the statement, so both are accepted
                ok = result in ((s0, e0), (min(s0, n), min(e0, n)))
            if not ok:
                ctx.violation('find-empty-settings', det, call, mech='find-empty-settings')
            return
        has = [all(g in row for g in G) for row in o.texts]
        if e0 < s0:
            ctx.sig('find:end<start')
            if result != (None, None):
                ctx.violation('find-end-before-start', det, call, mech='find-end-before-start')
            return
        some = any(has)
        if some and not all(has):
            ctx.nontriv(('find', o.key(), tuple(G), start, end, reverse))
            if len(ctx.samples) < 10:
                ctx.sample(det)
        readings = []
        for name, hi in (('half-open', min(e0, n) - 1), ('closed', min(e0, n - 1))):
            rng_idx = list(range(s0, hi + 1)) if hi >= s0 else []
            readings.append((name, rng_idx, self.judge(has, rng_idx, fs, fe, reverse, n)))
        ctx.sig('find:%s:%s' % ('reverse' if reverse else 'forward', 'found' if fs is not None else 'none'))
        if not any(r[2] is None for r in readings):
            det['why'] = {r[0]: r[2] for r in readings}
            mech = 'find-forward' if not reverse else 'find-reverse'
            if fs is None:
                mech += '-missed'
            ctx.violation('find_settings-inconsistent', det, call, mech=mech)

    @staticmethod
    def judge(has, idx, fs, fe, reverse, n):
        """None if (fs, fe) satisfies every clause under this reading, else the failed clause"""
        positions = [i for i in idx if has[i]]
        if not positions:
            return None if (fs is None and fe is None) else 'no position of the range has all settings but found_start=%r' % (fs,)
        if fs is None:
            return 'positions %r have all settings but (None, None) returned' % (positions[:5],)
        if fs not in idx:
            return 'found_start %r outside the range' % (fs,)
        if not has[fs]:
            return 'found_start %r lacks a setting' % (fs,)
        if not reverse and fs != positions[0]:
            return 'found_start %r is not the first position %r' % (fs, positions[0])
        last = idx[-1]
        if fe is None:
            for i in range(fs, last + 1):
                if not has[i]:
                    return 'found_end None but position %d lacks a setting' % i
            return None
        if not isinstance(fe, int) or fe <= fs:
            return 'found_end %r not after found_start' % (fe,)
        for i in range(fs, min(fe, n)):
            if not has[i]:
                return 'position %d before found_end lacks a setting' % i
        # found_end is the first later position lacking at least one: it must lack one (or be the end of the text)
        if fe < n and has[fe]:
            return 'found_end %r still has all settings' % (fe,)
        if fe > last + 1 and fe != n:
            return 'found_end %r beyond the range' % (fe,)
        return None


def contracts(ctx, mon):
    ctx.mon = mon
    return [QueryContract(ctx)]


def swap_workshop(ctx, mon, rng, L):
    """single queries interleaved with pairs of mutations that leave the *layout* of the markers as it was (a
    setting removed from a range and another one applied to the same range, a setting replaced by an equal-valued
    new one, two clears): any state a query keeps for the next query must not survive that"""
    codes = ['31', '34', '1', '4', '32', '44']
    n = rng.choice([6, 8, 10])
    s = L.AnsiString('abcdefghij'[:n])
    spans = []
    with mon.quiet():
        for _ in range(rng.randint(1, 3)):
            a = rng.randint(0, n - 2)
            b = rng.randint(a + 1, n)
            c = rng.choice(codes)
            s.apply_formatting(c, a, b)
            spans.append((c, a, b))
    ctx.sig('swap-workshop')
    for _ in range(rng.randint(2, 5)):
        try:
            k = rng.randint(0, n - 1)
            r = rng.random()
            if r < 0.5:
                s.settings_at(k)
            elif r < 0.8:
                s.ansi_settings_at(k)
            else:
                s.find_settings('[' + rng.choice(codes), rng.randint(0, k), None, rng.random() < 0.3)
            with mon.quiet():
                i = rng.randrange(len(spans))
                c, a, b = spans[i]
                c2 = rng.choice(codes)
                s.remove_formatting('[' + c, a, b)
                s.apply_formatting(c2, a, b)
                spans[i] = (c2, a, b)
        except Exception:
            pass
    try:
        for k in rng.sample(range(n), min(n, 3)):
            s.settings_at(k)
    except Exception:
        pass


def many_points(ctx, mon, rng):
    """a value with 9..30 change points, queried with ranges that begin and end exactly on them (and one off)"""
    L = ctx.L
    with mon.quiet():
        n = rng.randint(14, 28)
        v = L.AnsiString(''.join(rng.choice('abc ') for _ in range(n)))
        codes = ['bold', 'red', 'italic', 'bg_blue', 'underline', 'blue']
        for _ in range(rng.randint(6, 14)):
            a = rng.randrange(n)
            v.apply_formatting(rng.choice(codes), a, min(n, a + rng.randint(1, 6)), topmost=rng.random() < 0.8)
        if rng.random() < 0.3:
            v = L.AnsiStr(v)
        o = O.observe(v)
        cps = o.change_points() or [0]
    ctx.sig('many-points')
    for _ in range(12):
        sel = rng.sample(codes, rng.choice([1, 1, 2]))
        a = rng.choice(cps + [0])
        b = rng.choice(cps + [None, n])
        if rng.random() < 0.3 and b is not None:
            b += rng.choice([-1, 1])
        try:
            v.find_settings(sel, a, b, rng.random() < 0.4)
        except Exception:
            pass
    for i in rng.sample(range(n), 4):
        v.settings_at(i)


def drive(ctx, mon, tier, only_case=None):
    L = ctx.L
    sz = tier_sizes(tier)

    def body(rng, ex, case):
        if case == 0:
            # bounded-exhaustive part: every small-scope value x every selection of 1-2 codes x every start/end in
            # -5..5/None x both directions
            m = small_scope_on(ctx, tier)
            sels = [[c] for c in SS_CODES] + [['31', '1'], ['34', '31'], ['1', '1']]
            bounds = [None, -5, -4, -2, 0, 1, 2, 3, 4, 5]
            nv = 0
            for v, _ in small_scope_values(L, m, ctx.shard, ctx.extra.get('nshards', 1)):
                nv += 1
                for i in range(-2, 7):
                    v.ansi_settings_at(i)
                    v.settings_at(i)
                for sel in sels:
                    for a in bounds:
                        for b in bounds:
                            for rev in (False, True):
                                v.find_settings(sel, a if a is not None else 0, b, rev)
            ctx.extra['n_small_scope_values'] = nv
            return
        if case == 1:
            tsels = [['31'], ['1'], ['34', '1'], ['31', '31']] if tier == 'thorough' else [['31'], ['1']]
            tb = [None, -1, 0, 1, 2, 3, 4] if tier == 'thorough' else [None, 0, 1, 2, 3]

            def visit(v, p):
                for i in range(-1, 5):
                    v.ansi_settings_at(i)
                    v.settings_at(i)
                for sel in tsels:
                    for a in tb:
                        for b in tb:
                            for rev in (False, True):
                                v.find_settings(sel, a if a is not None else 0, b, rev)
            trie_case(ctx, mon, tier, 2, 3, visit=visit, cls=L.AnsiStr if ctx.shard % 4 == 3 else None)
            return
        profile = 'mixed' if rng.random() < 0.25 else 'wf'
        history(L, rng, ex, rng.randint(1, sz['nops']), sz['maxlen'], profile, WEIGHTS)
        if rng.random() < 0.3:
            many_points(ctx, mon, rng)
        for _ in range(3):
            swap_workshop(ctx, mon, rng, L)
        for v in ansi_values(L, ex)[-5:]:
            o = safe_obs(mon, v)
            if o is None or len(o.text) > 80:
                continue
            n = len(o.text)
            present = sorted(o.all_texts())
            for i in [-1, 0, n - 1, n, n + 1, -n, -n - 1, gen_bound(rng, n, o.change_points(), False)]:
                try:
                    v.ansi_settings_at(i)
                    v.settings_at(i)
                except Exception:
                    pass
            for _ in range(6):
                r = rng.random()
                if present and r < 0.75:
                    k = rng.choice([1, 1, 2, 3])
                    sel = ['[' + t for t in rng.sample(present, min(len(present), k))]
                    if rng.random() < 0.15:
                        sel.append(sel[0])
                elif r < 0.85:
                    sel = []
                else:
                    sel = [ex.dec(s) for s in gen_settings(rng, profile, 2)]
                a, b = gen_range(rng, n, o.change_points())
                try:
                    v.find_settings(sel, a if a is not None else 0, b, rng.random() < 0.45)
                except Exception:
                    pass

    run_cases(ctx, mon, CASES[tier], body, only_case=only_case)
