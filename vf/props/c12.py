"""C12 - padding / format-spec: text as format(), fill styled only when extending."""
import re
import sys

from .. import obs as O
from .. import sgr_model as M
from .common import (trie_case, Contract, ansi_values, history, run_cases, tier_sizes, is_ansi, safe_obs, settings_texts,
                     esc_seam_values, small_scope_values, small_scope_on)
from ..gen import gen_format_spec

PROP = 'C12'
RULE = ('case = one ljust/rjust/center/zfill call (extend_formatting both ways, in place or not) or one '
        'format()/to_str(spec)/f-string with a generated spec [fill][+|-][<|>|^][width][:ansi] on a reachable, '
        'non-uniformly formatted value.  Text reference: Python format()/ljust/rjust; per-character reference: '
        'original characters keep their settings at the shifted offset, fill characters take the adjacent original '
        'character\'s settings (extended) or none; the ansi part is applied to the whole padded result (extending) '
        'or to the original characters only; the output must equal to_str() of a copy padded and formatted through '
        'the public API, its emulated display must equal the expected per-character styles, the receiver must be '
        'unchanged and specs outside the grammar must raise ValueError.  Non-trivial: width > len and the source '
        'non-uniform; distinct = distinct (source, call).')
ASSUMPTIONS = ['Python format() is the text reference; a bare width left-justifies with spaces',
               'SGR group model for the displayed result of format()', 'specs with a zero-led width (e.g. 05) are grey',
               'ESC in the base text is grey']
MIN_EVAL = 400
CASES = {'quick': 800, 'thorough': 10800}
WEIGHTS = {'assign_str': 1.5, 'convert': 2, 'apply': 12, 'pad': 10, 'format': 8, 'to_str': 2, 'getitem': 2, 'add': 2, 'remove': 2, 'query': 0.1,
           'find_settings': 0.1, 'settings_at': 0.1}



SF_RE = re.compile(r'(?:(.)?([+-])?([<>^]))?([0-9]*)\Z', re.S)


def parse_spec(spec):
    """own recogniser of [fill][+|-][<|>|^][width][:ansi]; returns dict or None (outside the grammar).

    Written from the statement, not from the library's regexes: a fill character (and the flag) is present iff an
    alignment character follows - Python's own reading, so '+<5' has fill '+', ':<5' has fill ':' and ':31' is an
    empty string format followed by the ansi part '31'.  Where a ':' could either belong to the string format or
    start the ansi part, the longest valid string format wins (':<5:red' -> ':<5' + 'red')."""
    cuts = [None] + [i for i, ch in enumerate(spec) if ch == ':']
    best = None
    for cut in cuts:
        sf = spec if cut is None else spec[:cut]
        ansi = None if cut is None else spec[cut + 1:]
        mm = SF_RE.match(sf)
        if not mm:
            continue
        fill, flag, align, width = mm.groups()
        if align is not None and fill is None and flag is not None:
            fill, flag = flag, None         # '+<5': the '+' is the fill character
        cand = {'fill': fill if fill is not None else ' ', 'flag': flag or '', 'align': align or '<',
                'width': int(width) if width else None, 'ansi': ansi, 'sf': sf,
                'zero_led': len(width) > 1 and width[0] == '0'}
        if best is None or len(sf) > len(best['sf']):
            best = cand
    return best


def pad_text(t, fill, align, width):
    if width is None or width <= len(t):
        return t, 0
    num = width - len(t)
    if align == '<':
        return t + fill * num, 0
    if align == '>':
        return fill * num + t, num
    left = num // 2
    return fill * left + t + fill * (num - left), left


def expected_rows(o, padded_len, left, extend):
    n = len(o.text)
    rows = []
    for i in range(padded_len):
        if i < left:
            rows.append(list(o.texts[0]) if (extend and n) else [])
        elif i < left + n:
            rows.append(o.texts[i - left])
        else:
            rows.append(list(o.texts[-1]) if (extend and n) else [])
    return rows


class PadContract(Contract):
    prop = PROP
    methods = {('*', m) for m in ('ljust', 'rjust', 'center', 'zfill')}

    def pre(self, call):
        return O.observe(call.recv)

    def post(self, call, o, result, exc):
        ctx = self.ctx
        L = self.L
        name = call.name
        width = call.arg(0, 'width')
        if name == 'zfill':
            fill = '0'
            inplace = call.arg(1, 'inplace', False)
            extend = True
        else:
            fill = call.arg(1, 'fillchar', ' ')
            inplace = call.arg(2, 'inplace', False) if call.cls == 'AnsiString' else False
            extend = call.arg(3, 'extend_formatting', True) if call.cls == 'AnsiString' else True
        if not isinstance(width, int) or not isinstance(fill, str) or len(fill) != 1:
            return
        esc = O.has_esc(o.text) or fill == '\x1b'
        if exc is not None:
            ctx.ev('pad')
            ctx.violation('pad-raised', {'source': o.describe(), 'error': repr(exc)}, call, mech='pad-raised:' + name)
            return
        align = {'ljust': '<', 'rjust': '>', 'zfill': '>', 'center': '^'}[name]
        exp_text, left = pad_text(o.text, fill, align, width)
        ref = format(o.text, '%s%s%d' % (fill, align, max(width, 0))) if fill not in '{}' else exp_text
        v = result
        if not is_ansi(L, v):
            return
        p = O.observe(v)
        ctx.ev('pad')
        det = {'source': o.describe(), 'result': p.describe(), 'width': width, 'fill': fill, 'extend': bool(extend)}
        uniform = len({tuple(r) for r in o.texts}) <= 1
        ctx.sig('%s:%s:%s:%s' % (name, 'extend' if extend else 'no-extend', 'pads' if width > len(o.text) else 'no-pad',
                                 'uniform' if uniform else 'non-uniform'))
        if width > len(o.text) and not uniform:
            ctx.nontriv((name, o.key(), width, fill, bool(extend)))
            if len(ctx.samples) < 8:
                ctx.sample(det)
        if exp_text != ref:
            ctx.grey('pad-model-disagrees-with-format')
            return
        if p.text != exp_text:
            ctx.violation('pad-text', dict(det, expected=exp_text), call, mech='pad-text:' + name)
            return
        if esc:
            ctx.grey('esc-in-text:settings-clauses')     # only the text clause is judged
            return
        rows = expected_rows(o, len(exp_text), left, bool(extend))
        d = O.first_diff_equiv(rows, p.texts)
        if d is not None:
            where = 'left-fill' if d < left else ('original' if d < left + len(o.text) else 'right-fill')
            ctx.violation('pad-settings', dict(det, at=d, where=where, expected=rows[d], got=p.texts[d]), call,
                          mech='pad-settings:%s:%s' % (name, where))
            return
        if inplace and call.cls == 'AnsiString' and result is not call.recv:
            ctx.violation('pad-inplace-not-self', det, call, mech='pad-inplace')
        # closure: text appended to the padded result keeps only its own style
        base = L.AnsiString(v)
        s1 = [str(s) for s in (base + 'Z').ansi_settings_at(len(exp_text))]
        if s1 != []:
            ctx.violation('pad-style-open-past-end', dict(det, appended=s1), call, mech='pad-not-closed:' + name)


class FormatContract(Contract):
    prop = PROP
    methods = {('*', '__format__'), ('*', 'to_str')}

    def pre(self, call):
        spec = call.args[0] if call.args else call.kwargs.get('format_spec')
        if not spec or not isinstance(spec, str):
            return None
        o = O.observe(call.recv)
        return (o, spec, self.L.AnsiString(call.recv), call.recv.to_str())

    def post(self, call, st, result, exc):
        if st is None:
            return
        ctx = self.ctx
        L = self.L
        o, spec, precopy, pre_render = st
        if O.has_esc(o.text):
            ctx.grey('esc-in-text')
            return
        ps = parse_spec(spec)
        det = {'source': o.describe(), 'spec': spec}
        ctx.ev('format')
        # receiver unchanged
        o2 = O.observe(call.recv)
        if o2.text != o.text or O.first_diff_exact(o.texts, o2.texts) is not None or call.recv.to_str() != pre_render:
            ctx.violation('format-changed-receiver', dict(det, after=o2.describe()), call, mech='format-changed-receiver')
        if ps is None:
            ctx.sig('spec:outside-grammar')
            if not isinstance(exc, ValueError):
                ctx.violation('bad-spec-accepted', dict(det, outcome=repr(exc) if exc else repr(result)[:120]), call,
                              mech='bad-spec-accepted')
            return
        if ps.get('zero_led'):
            ctx.grey('zero-led-width')
            return
        if ps['width'] is not None and ps['width'] > sys.maxsize:
            # like str: "Too many decimal digits in format string"
            ctx.sig('spec:width-beyond-index-size')
            if not isinstance(exc, ValueError):
                ctx.violation('huge-width-not-a-ValueError', dict(det, outcome=repr(exc)[:120]), call, mech='format-huge-width')
            return
        G = []
        if ps['ansi']:
            G = settings_texts(L, ctx.mon, ps['ansi'])
            if G is None:
                # invalid ansi part: must raise ValueError
                ctx.sig('spec:invalid-ansi-part')
                if not isinstance(exc, ValueError):
                    ctx.violation('bad-ansi-part-accepted', dict(det, outcome=repr(exc) if exc else repr(result)[:120]),
                                  call, mech='bad-ansi-part-accepted')
                return
        if exc is not None:
            ctx.violation('valid-spec-raised', dict(det, error=repr(exc)), call, mech='valid-spec-raised')
            return
        extend = ps['flag'] != '-'
        exp_text, left = pad_text(o.text, ps['fill'], ps['align'], ps['width'])
        if ps['fill'] not in '{}':
            ref = format(o.text, '%s%s%s' % (ps['fill'], ps['align'], ps['width'] if ps['width'] is not None else ''))
            if ref != exp_text:
                ctx.grey('pad-model-disagrees-with-format')
                return
        ctx.sig('spec:%s:%s:%s:%s' % (ps['align'], 'extend' if extend else 'no-extend',
                                      'pads' if len(exp_text) > len(o.text) else 'no-pad', 'ansi' if G else 'no-ansi'))
        uniform = len({tuple(r) for r in o.texts}) <= 1
        if len(exp_text) > len(o.text) and not uniform:
            ctx.nontriv(('format', o.key(), spec))
            if len(ctx.samples) < 12:
                ctx.sample(dict(det, out=result))
        rows = expected_rows(o, len(exp_text), left, extend)
        n = len(o.text)
        # the ansi part goes over the whole padded result when extending, else over the original characters only
        span = range(len(exp_text)) if extend else range(left, left + n)
        # (1) the documented equivalent, done on a copy through the public API
        c = precopy
        try:
            if not extend and G:
                c.apply_formatting(ps['ansi'])
            if ps['width'] is not None:
                m = {'<': c.ljust, '>': c.rjust, '^': c.center}[ps['align']]
                m(ps['width'], ps['fill'], inplace=True, extend_formatting=extend)
            if extend and G:
                c.apply_formatting(ps['ansi'])
            kw = {}
            if call.name == 'to_str':
                kw = {'optimize': call.arg(1, 'optimize', True), 'reset_start': call.arg(2, 'reset_start', False),
                      'reset_end': call.arg(3, 'reset_end', True)}
            manual = c.to_str(**kw)
            mo = O.observe(c)
        except Exception as e:
            ctx.violation('format-manual-equivalent-raised', dict(det, error=repr(e)), call, mech='format-manual-raised')
            return
        if manual != result:
            ctx.violation('format-differs-from-pad-plus-apply', dict(det, out=result, manual=manual), call,
                          mech='format-differs-from-manual')
            return
        # (2) independent of how apply_formatting orders things: text, and every character carries exactly its
        #     padding-model settings plus the ansi part iff it lies in the span the flag selects
        if mo.text != exp_text:
            ctx.violation('format-text', dict(det, out=result, expected=exp_text, got=mo.text), call, mech='format-text')
            return
        for i in range(len(exp_text)):
            want = sorted(list(rows[i]) + (list(G) if i in span else []))
            if sorted(mo.texts[i]) != want:
                where = 'left-fill' if i < left else ('original' if i < left + n else 'right-fill')
                ctx.violation('format-settings', dict(det, out=result, at=i, where=where, expected=want,
                                                      got=mo.texts[i]), call,
                              mech='format-settings:%s:%s' % (where, 'extend' if extend else 'no-extend'))
                return
            if i not in span and not O.prec_equiv(rows[i], mo.texts[i]):
                ctx.violation('format-settings-order', dict(det, at=i), call, mech='format-settings-order')
                return
        # (3) the returned string displays exactly that (reference terminal)
        sty, grey = O.styles(mo)
        if grey:
            ctx.grey('illformed-setting-display-clauses')
            return
        e = M.emulate(result, {})
        chars = ''.join(ch for ch, _ in e.cells)
        if e.malformed:
            ctx.violation('format-malformed-output', dict(det, out=result, why=e.malformed), call, mech='format-malformed')
            return
        if chars != exp_text:
            ctx.violation('format-displayed-text', dict(det, out=result, expected=exp_text, displayed=chars), call,
                          mech='format-text')
            return
        for i, (ch, stt) in enumerate(e.cells):
            if stt != sty[i]:
                where = 'left-fill' if i < left else ('original' if i < left + n else 'right-fill')
                ctx.violation('format-style', dict(det, out=result, at=i, where=where, expected=dict(sty[i]),
                                                   displayed=dict(stt)), call,
                              mech='format-style:%s:%s' % (where, 'extend' if extend else 'no-extend'))
                return
        reset_end = call.arg(3, 'reset_end', True) if call.name == 'to_str' else True
        if e.final and reset_end:
            ctx.violation('format-not-reset-at-end', dict(det, out=result, final=e.final), call, mech='format-final')


def contracts(ctx, mon):
    ctx.mon = mon
    return [PadContract(ctx), FormatContract(ctx)]


def drive(ctx, mon, tier, only_case=None):
    L = ctx.L
    sz = tier_sizes(tier)

    def body(rng, ex, case):
        if case == 0:
            # bounded-exhaustive part: every small-scope value x every padding call / format spec of a fixed battery
            m = small_scope_on(ctx, tier)
            nv = 0
            specs = ['>6', '*^7:blue', '--<6:1', '+>7:34', ':31', '5', '<', '^7', '.-^8:4', ':>6', '+<5:underline;red']
            for v, _ in small_scope_values(L, m, ctx.shard, ctx.extra.get('nshards', 1),
                                            cls=L.AnsiStr if ctx.shard % 4 == 1 else None):
                nv += 1
                for w in (3, 4, 5, 6, 7):
                    for meth in ('ljust', 'rjust', 'center'):
                        if isinstance(v, L.AnsiString):
                            getattr(v, meth)(w, '*', extend_formatting=True)
                            getattr(v, meth)(w, '*', extend_formatting=False)
                        else:
                            getattr(v, meth)(w, '*')
                    v.zfill(w)
                for sp in specs:
                    format(v, sp)
            ctx.extra['n_small_scope_values'] = nv
            return
        if case == 1:
            tspecs = ['>5', '*^6:blue', '--<5:1', '+>6:34', ':31', '^6', '.-^7:4'] if tier == 'thorough' else ['*^6:blue', '--<5:1', '+>6:34']

            def visit(v, p):
                for w in (4, 5):
                    for meth in ('ljust', 'rjust', 'center'):
                        if isinstance(v, L.AnsiString):
                            getattr(v, meth)(w, '*', extend_formatting=True)
                            getattr(v, meth)(w, '*', extend_formatting=False)
                        else:
                            getattr(v, meth)(w, '*')
                v.zfill(5)
                for sp in tspecs:
                    format(v, sp)
            trie_case(ctx, mon, tier, 2, 3, visit=visit, cls=L.AnsiStr if ctx.shard % 4 == 1 else None)
            return
        history(L, rng, ex, rng.randint(1, sz['nops']), sz['maxlen'], 'mixed' if rng.random() < 0.2 else 'wf', WEIGHTS,
                esc=rng.random() < 0.12)
        with mon.quiet():
            seam = esc_seam_values(L, rng, 2) if rng.random() < 0.3 else []
        for v in ansi_values(L, ex)[-5:] + seam:
            n = len(v.base_str)
            if n > 80:
                continue
            for _ in range(5):
                try:
                    r = rng.random()
                    w = rng.choice([0, n - 1, n, n + 1, n + 2, n + 3, n + 7])
                    f = rng.choice([' ', '*', ':', '+', '-', '<', '0', '9', 'é'])
                    if r < 0.45:
                        format(v, gen_format_spec(rng, n))
                    elif r < 0.55:
                        v.to_str(gen_format_spec(rng, n, invalid_ok=False), optimize=rng.random() < 0.5,
                                 reset_start=rng.random() < 0.5, reset_end=rng.random() < 0.5)
                    elif isinstance(v, L.AnsiString):
                        m = rng.choice(['ljust', 'rjust', 'center'])
                        getattr(v, m)(w, f, extend_formatting=rng.random() < 0.5)
                    else:
                        getattr(v, rng.choice(['ljust', 'rjust', 'center']))(w, f)
                    if rng.random() < 0.15:
                        v.zfill(w)
                except Exception:
                    pass

    run_cases(ctx, mon, CASES[tier], body, only_case=only_case)
