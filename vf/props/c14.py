"""C14 - all documented spellings of a setting give the same codes; bad ones rejected."""
from .common import run_cases

PROP = 'C14'
RULE = ('case = one (reference, spelling) pair probed through AnsiString(\'x\', form): ALL AnsiFormat members '
        '(exhaustive, aliases included, split over the shards) x {member, name lower/upper/mixed case, spaces and '
        'hyphens for underscores, codes as separate ints / list / tuple, as a ;-string, verbatim after [, as '
        'AnsiSetting objects, nested 1-3 levels, mixed with another directive in one ;-string}; all codes 0..255 as '
        'int vs str; rgb()/color256() helpers and their string forms (decimal, 0x-hex, brackets, spaces, fg_/bg_/'
        'ul_/dul_, colour) against independently computed texts incl. clamping and the 24-bit split; random '
        'mixtures and nestings; malformed forms must raise the stated type.  Non-trivial: the form is not the '
        'canonical member form; distinct = distinct (reference, form).')
ASSUMPTIONS = ['AnsiString(\'x\', form).ansi_settings_at(0) and str() are the observation',
               'bool as int and color256(n) outside 0..255 are grey']
MIN_EVAL = 2000
CASES = {'quick': 320, 'thorough': 7200}
EXHAUSTIVE = False


def probe(L, *form):
    """(reported texts, str()) or the exception"""
    try:
        s = L.AnsiString('x', *form)
    except Exception as e:
        return e
    return ([str(x) for x in s.ansi_settings_at(0)], str(s), s)


def mixed_case(rng, name):
    return ''.join(c.upper() if rng.random() < 0.5 else c.lower() for c in name)


def flat_ints(texts):
    out = []
    for t in texts:
        out += [int(x) for x in t.split(';')]
    return out


def nest(rng, items, depth):
    """nest a list of directive objects at directive boundaries"""
    if depth <= 0 or len(items) == 0:
        return list(items)
    k = rng.randint(0, len(items))
    left, right = items[:k], items[k:]
    out = []
    if left:
        out.append(nest(rng, left, depth - 1) if rng.random() < 0.7 else tuple(nest(rng, left, depth - 1)))
    out += right
    if rng.random() < 0.3:
        out = [out]
    return out


def compare(ctx, ref, got, what, form_desc, joined=False, mech='spelling'):
    ctx.ev('spelling')
    ctx.nontriv((what, form_desc))
    if len(ctx.samples) < 10 and not isinstance(got, Exception) and form_desc not in ('name-lower', 'name-upper'):
        ctx.sample({'reference': what, 'form': form_desc, 'reported': got[0], 'str': got[1]})
    if isinstance(got, Exception):
        ctx.violation('spelling-rejected', {'reference': what, 'form': form_desc, 'error': repr(got)},
                      mech=mech + '-rejected')
        return False
    rt, rs = ref[0], ref[1]
    gt, gs = got[0], got[1]
    if joined:
        ok = ';'.join(gt) == ';'.join(rt) and len(gt) == 1
        # a verbatim setting is not optimised: compare the displayed sequence text only
        ok = ok and gs.replace('\x1b[0;', '\x1b[') == rs.replace('\x1b[0;', '\x1b[')
    else:
        ok = gt == rt and gs == rs
    if not ok:
        ctx.violation('spelling-differs', {'reference': what, 'reference_settings': rt, 'reference_str': rs,
                                           'form': form_desc, 'settings': gt, 'str': gs}, mech=mech + '-differs')
    return ok


def check_member(ctx, L, rng, name, member):
    ref = probe(L, member)
    if isinstance(ref, Exception):
        ctx.ev('spelling')
        ctx.violation('member-rejected', {'member': name, 'error': repr(ref)}, mech='member-rejected')
        return
    texts = [str(s) for s in member.ansi_settings]
    ctx.ev('member-settings')
    if ref[0] != texts:
        ctx.violation('member-settings-differ', {'member': name, 'ansi_settings': texts, 'reported': ref[0]},
                      mech='member-settings')
    for t in texts:
        st = L.AnsiSetting(t)
        ctx.ev('member-valid-parsable')
        if not (st.valid and st.parsable):
            ctx.violation('member-not-valid-parsable', {'member': name, 'setting': t}, mech='member-not-parsable')
    ints = flat_ints(texts)
    forms = [
        ('name-lower', (name.lower(),), False),
        ('name-upper', (name.upper(),), False),
        ('name-mixed', (mixed_case(rng, name),), False),
        ('name-spaces', (name.lower().replace('_', ' '),), False),
        ('name-hyphens', (name.title().replace('_', '-'),), False),
        ('name-mixed-sep', (mixed_case(rng, name).replace('_', rng.choice([' ', '-']), 1),), False),
        ('ints-separate', tuple(ints), False),
        ('ints-list', (list(ints),), False),
        ('ints-tuple', (tuple(ints),), False),
        ('semicolon-string', (';'.join(str(i) for i in ints),), False),
        ('semicolon-string-padded', (';'.join(str(i) for i in ints) + ';',), False),
        ('verbatim', ('[' + ';'.join(texts),), True),
        ('ansisetting-objects', tuple(L.AnsiSetting(t) for t in texts), False),
        ('ansisetting-list', ([L.AnsiSetting(t) for t in texts],), False),
        ('member-in-list', ([member],), False),
        ('member-nested-3', ([[(member,)]],), False),
        ('name-nested', (([name.lower()],),), False),
        ('member.ansi_settings', (member.ansi_settings,), False),
    ]
    for fname, form, joined in forms:
        got = probe(L, *form)
        compare(ctx, ref, got, name, fname, joined)
        ctx.sig('form:' + fname)
    # mixed with another directive
    for other, otexts in (('bold', ['1']), ('bg_blue', ['44']), ('no_underline', ['24'])):
        mix_ref = probe(L, other, member)
        got = probe(L, other + ';' + name.lower())
        ctx.sig('form:mixed-string')
        if isinstance(mix_ref, Exception):
            continue
        compare(ctx, mix_ref, got, other + '+' + name, 'mixed-semicolon-string')
        got2 = probe(L, [other, [member]])
        compare(ctx, mix_ref, got2, other + '+' + name, 'mixed-nested-list')
        ctx.ev('flatten-order')
        if mix_ref[0] != otexts + texts:
            ctx.violation('flatten-order', {'forms': [other, name], 'expected': otexts + texts, 'reported': mix_ref[0]},
                          mech='flatten-order')


def expected_rgb(comp, r, g, b):
    base = {'fg': 38, 'bg': 48, 'ul': 58, 'dul': 58}[comp]
    col = '%d;2;%d;%d;%d' % (base, r, g, b)
    if comp == 'ul':
        return ['4', col]
    if comp == 'dul':
        return ['21', col]
    return [col]


def expected_256(comp, n):
    base = {'fg': 38, 'bg': 48, 'ul': 58, 'dul': 58}[comp]
    col = '%d;5;%d' % (base, n)
    if comp == 'ul':
        return ['4', col]
    if comp == 'dul':
        return ['21', col]
    return [col]


def clamp(x):
    return 0 if x < 0 else 255 if x > 255 else x


def check_helpers(ctx, L, rng):
    AF = L.AnsiFormat
    CT = L.ColorComponentType
    comp = rng.choice(['fg', 'bg', 'ul', 'dul'])
    fn = {'fg': AF.fg_rgb, 'bg': AF.bg_rgb, 'ul': AF.ul_rgb, 'dul': AF.dul_rgb}[comp]
    ctype = {'fg': CT.FOREGROUND, 'bg': CT.BACKGROUND, 'ul': CT.UNDERLINE, 'dul': CT.DOUBLE_UNDERLINE}[comp]
    pick = lambda: rng.choice([-1, 0, 1, 2, 127, 128, 254, 255, 256, 1000, -300, rng.randint(0, 255)])  # noqa: E731
    r, g, b = pick(), pick(), pick()
    exp = expected_rgb(comp, clamp(r), clamp(g), clamp(b))

    def judge(desc, got, expected, mech):
        ctx.ev('helper')
        ctx.nontriv((desc, tuple(expected)))
        ctx.sig('helper:' + desc.split('(')[0])
        if isinstance(got, Exception):
            ctx.violation('helper-rejected', {'form': desc, 'error': repr(got), 'expected': expected}, mech=mech + '-rejected')
        elif got[0] != expected:
            ctx.violation('helper-differs', {'form': desc, 'expected': expected, 'reported': got[0]}, mech=mech + '-differs')

    judge('%s_rgb(%d,%d,%d)' % (comp, r, g, b), probe(L, fn(r, g, b)), exp, 'rgb-helper')
    judge('rgb(%d,%d,%d,component=%s)' % (r, g, b, comp), probe(L, AF.rgb(r, g, b, ctype)), exp, 'rgb-helper')
    v24 = rng.choice([0, 1, 0xFF, 0x100, 0xFFFF, 0x10000, 0xFFFFFF, 0x123456, rng.randint(0, 0xFFFFFF)])
    exp24 = expected_rgb(comp, (v24 >> 16) & 255, (v24 >> 8) & 255, v24 & 255)
    judge('%s_rgb(0x%06x)' % (comp, v24), probe(L, fn(v24)), exp24, 'rgb-24bit')
    # string forms (non-negative only: the grammar has no sign)
    rr, gg, bb = abs(r), abs(g), abs(b)
    exps = expected_rgb(comp, clamp(rr), clamp(gg), clamp(bb))
    prefix = {'fg': rng.choice(['', 'fg_']), 'bg': 'bg_', 'ul': 'ul_', 'dul': 'dul_'}[comp]
    style = rng.randrange(6)
    if style == 0:
        s = '%srgb(%d,%d,%d)' % (prefix, rr, gg, bb)
    elif style == 1:
        s = '%srgb( %d , %d ,%d )' % (prefix, rr, gg, bb)
    elif style == 2:
        s = '%srgb([%d, %d, %d])' % (prefix, rr, gg, bb)
    elif style == 3:
        s = '%srgb((0x%x,0x%X,%d))' % (prefix, rr, gg, bb)
    elif style == 4:
        s = '%sRGB(%d,0x%02x,%d)' % (prefix.upper(), rr, gg, bb)
        # names are case-insensitive only for AnsiFormat members; function directives are matched as written
        s = s.replace('RGB', 'rgb').replace(prefix.upper(), prefix)
    else:
        s = '%srgb(0x%x, %d, 0x%x)' % (prefix, rr, gg, bb)
    judge(s, probe(L, s), exps, 'rgb-string')
    s24 = rng.choice(['%srgb(0x%x)', '%srgb(%d)', '%srgb( 0x%X )', '%srgb([%d])', '%srgb(0%d)', '%srgb(0x0%x)']) % (prefix, v24)
    judge(s24, probe(L, s24), exp24, 'rgb-string-24bit')
    # decimal values may carry leading zeros ("decimal or 0x-hex")
    sz = '%srgb(%s,%s,%s)' % (prefix, rng.choice(['%03d', '0%d', '%d']) % rr, rng.choice(['%03d', '00%d']) % gg,
                            rng.choice(['%d', '%04d']) % bb)
    judge(sz, probe(L, sz), exps, 'rgb-string-leading-zeros')
    # color256
    n = rng.choice([0, 1, 7, 8, 15, 16, 214, 231, 232, 254, 255, rng.randint(0, 255)])
    fn256 = {'fg': rng.choice([AF.fg_color256, AF.fg_colour256, AF.color256, AF.colour256]),
             'bg': rng.choice([AF.bg_color256, AF.bg_colour256]), 'ul': rng.choice([AF.ul_color256, AF.ul_colour256]),
             'dul': rng.choice([AF.dul_color256, AF.dul_colour256])}[comp]
    e256 = expected_256(comp, n)
    judge('%s_color256(%d)' % (comp, n), probe(L, fn256(n)), e256, 'color256-helper')
    judge('color256(%d,component=%s)' % (n, comp), probe(L, AF.color256(n, ctype)), e256, 'color256-helper')
    word = rng.choice(['color', 'colour'])
    s = rng.choice(['%s%s256(%d)', '%s%s256( %d )', '%s%s256([%d])', '%s%s256(0x%x)', '%s%s256((0x%X))', '%s%s256(%03d)',
                    '%s%s256(0%d)']) % (prefix, word, n)
    judge(s, probe(L, s), e256, 'color256-string')
    # helper results are valid + parsable
    for st in fn(r, g, b) + fn256(n):
        ctx.ev('helper-valid-parsable')
        if not (st.valid and st.parsable):
            ctx.violation('helper-not-parsable', {'setting': str(st)}, mech='helper-not-parsable')


NEG = [
    ('unknown-name', ['notacolor', 'bold_', 'redd', 'fg red x', 'rgb', 'bold;nope', 'ul_', 'colour',
                      # not names in any letter case, although str.upper() maps them onto one
                      'cro\xdfed_out', '\u017flow_blink', '\u0131talic', '\ufb02oral_white', 'bold;\u0131talic', 'fg_\u017feashell',
                      '\u0131nvert', 'bg_m\u0131nt_cream'], ValueError),
    ('negative-int', [-1, -255, [-1], (1, -2), '-1', '1;-2'], ValueError),
    ('malformed-rgb', ['rgb()', 'rgb(1,2)', 'rgb(1,2,3,4)', 'rgb(T)', 'ul_rgb(T)', 'rgb(-1,0,0)', 'rgb(ff,0,0)',
                       'rgb(1;2;3)', 'color256()', 'color256(1,2)', 'colour256(x)', 'bg_rgb(1,,2)', 'rgb(0x)',
                       'xx_rgb(1,2,3)', 'rgb 1,2,3', 'fg_color256(-1)', 'rgb(0b11,0,0)', 'color256(0b1)', 'rgb(0o7,1,2)',
                       'rgb(1_0,2,3)', 'color256(1_0)', 'rgb(1.0,2,3)', 'rgb(+1,2,3)', 'color256(0xg)', 'rgb(0x1,0x,3)',
                       'rgb(\u0663,1,2)', 'rgb([1,2,3)', 'rgb(1,2,3])', 'rgb((1,2,3)', 'color256([7)', 'rgb(1,2,3)\n',
                       'color256(7)\n', 'bg_rgb([1,2,3))'], ValueError),
    ('unsupported-type', [[1.5], [None], [b'1'], [{}], ['bold', 1.5], (None,), [[{}]], [object]], TypeError),
]


def check_negative(ctx, L, rng):
    kind, forms, exc_t = rng.choice(NEG)
    form = rng.choice(forms)
    got = probe(L, form)
    ctx.ev('rejection')
    ctx.sig('reject:' + kind)
    ctx.nontriv(('neg', kind, repr(form)))
    if not isinstance(got, exc_t):
        ctx.violation('bad-form-not-rejected', {'kind': kind, 'form': repr(form), 'expected': exc_t.__name__,
                                                'outcome': repr(got if isinstance(got, Exception) else got[:2])},
                      mech='not-rejected:' + kind)
    # also through apply_formatting on an existing value: must raise the same and leave it unchanged
    s = L.AnsiString('ab', 'red')
    before = (str(s), [s.settings_at(i) for i in range(2)])
    try:
        s.apply_formatting(form)
        out = None
    except Exception as e:
        out = e
    ctx.ev('rejection')
    if not isinstance(out, exc_t) or before != (str(s), [s.settings_at(i) for i in range(2)]):
        ctx.violation('bad-form-not-rejected-by-apply', {'kind': kind, 'form': repr(form), 'outcome': repr(out)},
                      mech='not-rejected-apply:' + kind)
    # ... also when there is nothing to apply them to (empty text, empty range)
    for what, fn in (('empty-text', lambda: L.AnsiString('', form)), ('empty-text-AnsiStr', lambda: L.AnsiStr('', form)),
                     ('empty-range', lambda: L.AnsiString('abc').apply_formatting(form, 2, 1)),
                     ('empty-range-remove', lambda: L.AnsiString('abc', 'red').remove_formatting(form, 2, 1))):
        try:
            fn()
            out = None
        except Exception as e:
            out = e
        ctx.ev('rejection')
        if not isinstance(out, exc_t):
            ctx.violation('bad-form-not-rejected-on-' + what, {'kind': kind, 'form': repr(form), 'outcome': repr(out)},
                          mech='not-rejected-empty-target:' + kind)
    # a list containing itself
    lst = ['bold']
    lst.append(lst)
    got = probe(L, lst)
    ctx.ev('rejection')
    if not isinstance(got, ValueError):
        ctx.violation('self-containing-list-not-rejected', {'outcome': repr(got)}, mech='not-rejected:selflist')
    deep = ['red', ['bold', ('italic',)]]
    deep[1].append(deep)
    got = probe(L, deep)
    ctx.ev('rejection')
    if not isinstance(got, ValueError):
        ctx.violation('self-containing-list-not-rejected', {'outcome': repr(got), 'depth': 2}, mech='not-rejected:selflist')
    # empty containers contribute nothing and may occur repeatedly (the empty tuple is one shared object)
    e = []
    p2 = [[], 'bold']
    for form, exp in ((['bold', (), 'red', ()], ['1', '31']), ([e, 'bold', e], ['1']), ([p2, 'red', p2], ['1', '31', '1']),
                      (((), ((),), 'italic'), ['3'])):
        got = probe(L, form)
        ctx.ev('spelling')
        if isinstance(got, Exception) or got[0] != exp:
            ctx.violation('empty-container-not-ignored', {'form': repr(form), 'expected': exp, 'outcome': repr(got)[:200]},
                          mech='empty-containers')
    # the same (non-recursive) contents twice is fine
    sub = ['bold']
    got = probe(L, [sub, sub])
    ctx.ev('spelling')
    if isinstance(got, Exception) or got[0] != ['1', '1']:
        ctx.violation('repeated-sublist-rejected', {'outcome': repr(got)}, mech='repeated-sublist')


def check_codes(ctx, L, rng, lo, hi):
    for n in range(lo, hi):
        a = probe(L, n)
        b = probe(L, str(n))
        c = probe(L, [n])
        d = probe(L, '%02d' % n)
        ctx.ev('int-vs-str')
        ctx.nontriv(('code', n))
        if n == 0:
            # a bare 0 passed directly is an empty settings argument list element; all four forms must still agree
            pass
        res = []
        for x in (a, b, c, d):
            res.append(repr(x) if isinstance(x, Exception) else (x[0], x[1]))
        if not (res[0] == res[1] == res[2]):
            ctx.violation('int-vs-str-differs', {'code': n, 'int': repr(res[0]), 'str': repr(res[1]), 'list': repr(res[2])},
                          mech='int-vs-str')
        elif not isinstance(d, Exception) and not isinstance(a, Exception) and d[0] != a[0]:
            ctx.violation('zero-padded-code-differs', {'code': n, 'int': res[0], 'padded': res[3]}, mech='int-vs-str-padded')


def check_mixture(ctx, L, rng, names):
    """random mixtures and nestings of member spellings: flattened in order"""
    k = rng.randint(2, 4)
    picks = [rng.choice(names) for _ in range(k)]
    members = [L.AnsiFormat[n] for n in picks]
    exp = []
    for m in members:
        exp += [str(s) for s in m.ansi_settings]
    spell = []
    for n, m in zip(picks, members):
        r = rng.randrange(5)
        if r == 0:
            spell.append(m)
        elif r == 1:
            spell.append(mixed_case(rng, n))
        elif r == 2:
            spell.append(n.lower().replace('_', ' '))
        elif r == 3:
            spell.append([L.AnsiSetting(str(s)) for s in m.ansi_settings])
        else:
            spell.append(tuple(m.ansi_settings))
    form = nest(rng, spell, rng.randint(0, 3))
    got = probe(L, form)
    ctx.ev('mixture')
    ctx.sig('mixture')
    ctx.nontriv(('mix', tuple(picks), repr(form)[:120]))
    if isinstance(got, Exception) or got[0] != exp:
        ctx.violation('mixture-differs', {'members': picks, 'form': repr(form)[:300], 'expected': exp,
                                          'outcome': repr(got)[:300] if isinstance(got, Exception) else got[0]},
                      mech='mixture')
        return
    # all as one ';' string of names
    s = ';'.join(n.lower() for n in picks)
    got = probe(L, s)
    ctx.ev('mixture')
    if isinstance(got, Exception) or got[0] != exp:
        ctx.violation('mixture-string-differs', {'members': picks, 'form': s, 'expected': exp,
                                                 'outcome': repr(got)[:300] if isinstance(got, Exception) else got[0]},
                      mech='mixture-string')
    # one ';' string mixing names, integer codes and rgb()/color256() directives, in order
    parts = []
    for n, m in zip(picks, members):
        codes = ';'.join(str(x) for x in m.ansi_settings)
        parts.append(rng.choice([n.lower(), codes, codes, mixed_case(rng, n)]))
    extra = rng.choice([None, ('rgb(1,2,3)', ['38;2;1;2;3']), ('bg_color256(7)', ['48;5;7']), ('4', ['4']), ('0', ['0'])])
    exp2 = list(exp)
    if extra:
        k = rng.randint(0, len(parts))
        parts.insert(k, extra[0])
        # position of the inserted directive's settings
        pos = sum(len(mm.ansi_settings) for mm in members[:k])
        exp2[pos:pos] = extra[1]
    s2 = ';'.join(parts)
    got = probe(L, s2)
    ctx.ev('mixture')
    ctx.nontriv(('mixstr', s2))
    if isinstance(got, Exception) or got[0] != exp2:
        ctx.violation('mixed-string-differs', {'form': s2, 'expected': exp2,
                                               'outcome': repr(got)[:300] if isinstance(got, Exception) else got[0]},
                      mech='mixture-string-codes-and-names')


def split_nested(rng, items, depth):
    """the same items in order, with brackets placed anywhere (also inside what is one setting when flat)"""
    if depth <= 0 or len(items) <= 1:
        return list(items)
    out = []
    i = 0
    while i < len(items):
        if rng.random() < 0.5:
            j = rng.randint(i + 1, len(items))
            sub = split_nested(rng, items[i:j], depth - 1)
            out.append(sub if rng.random() < 0.6 else tuple(sub))
            i = j
        else:
            out.append(items[i])
            i += 1
    if rng.random() < 0.2:
        out.insert(rng.randint(0, len(out)), rng.choice([[], ()]))
    return out


def check_int_nesting(ctx, L, rng, names):
    """integer codes of 1-3 members as one flat list vs the same integers in order under arbitrary bracketing
    ("arbitrarily nested lists/tuples of these (flattened in order)"): brackets must not matter, also where they cut
    through an extended-colour group"""
    picks = [rng.choice(names) for _ in range(rng.randint(1, 3))]
    ints = []
    for n in picks:
        ints += flat_ints([str(s) for s in L.AnsiFormat[n].ansi_settings])
    flat = probe(L, list(ints))
    items = [x if rng.random() < 0.85 else str(x) for x in ints]
    form = split_nested(rng, items, rng.randint(1, 3))
    got = probe(L, form)
    ctx.ev('int-nesting')
    ctx.sig('int-nesting:' + ('colour-group' if any(x in (38, 48, 58) for x in ints) else 'single-codes'))
    ctx.nontriv(('intnest', tuple(ints), repr(form)))
    if isinstance(flat, Exception) or isinstance(got, Exception) or got[0] != flat[0] or got[1] != flat[1]:
        ctx.violation('nesting-changes-the-reading', {
            'members': picks, 'flat': ints, 'nested': repr(form),
            'flat_reports': repr(flat) if isinstance(flat, Exception) else flat[0],
            'nested_reports': repr(got) if isinstance(got, Exception) else got[0]}, mech='int-nesting')
        return
    # a second range on top shows whether both are seen as the same (parsable, optimisable) settings
    try:
        a = L.AnsiString('xy')
        a.apply_formatting(list(ints), 0, 2)
        a.apply_formatting('bold', 1, 2)
        b = L.AnsiString('xy')
        b.apply_formatting(form, 0, 2)
        b.apply_formatting('bold', 1, 2)
        if str(a) != str(b) or a.is_formatting_parsable() != b.is_formatting_parsable():
            ctx.violation('nesting-changes-the-rendering', {'members': picks, 'flat': ints, 'nested': repr(form),
                                                            'flat_str': str(a), 'nested_str': str(b)}, mech='int-nesting')
    except Exception as e:
        ctx.violation('nesting-raised', {'members': picks, 'nested': repr(form), 'error': repr(e)}, mech='int-nesting')


def check_nested(ctx, L, rng, names):
    """the same spelling used twice in one value (nested ranges with a conflicting setting in between, or a second
    non-topmost application) must report, character by character, what the canonical objects report: two uses of
    one spelling are two independent settings"""
    AF = L.AnsiFormat
    kind = rng.randrange(4)
    if kind == 0:
        r, g, b = rng.randint(0, 255), rng.randint(0, 255), rng.randint(0, 255)
        spelled = 'rgb(%d,%d,%d)' % (r, g, b)
        canon = lambda: AF.rgb(r, g, b)     # noqa: E731
        other = 'blue'
    elif kind == 1:
        n = rng.randint(0, 255)
        spelled = 'bg_color256(%d)' % n
        canon = lambda: AF.bg_color256(n)   # noqa: E731
        other = 'bg_red'
    elif kind == 2:
        name = rng.choice([x for x in names if x.startswith('FG_')])
        spelled = name.lower()
        canon = lambda: AF[name]            # noqa: E731
        other = 'rgb(9,9,9)'
    else:
        name = rng.choice([x for x in names if x.startswith('BG_')])
        spelled = ';'.join(str(s) for s in AF[name].ansi_settings)
        canon = lambda: AF[name]            # noqa: E731
        other = 'bg_blue'
    plan = rng.choice([[(0, 10, True), ('o', 2, 8, True), (4, 6, True)],
                       [(0, 5, True), ('o', 3, 8, True), (5, 10, True)],
                       [(2, 9, True), ('o', 0, 10, True), (4, 7, False)],
                       [(0, 10, True), (3, 6, True), ('o', 1, 9, False)]])

    def build(use_spelled):
        s = L.AnsiString('abcdefghij')
        for step in plan:
            if step[0] == 'o':
                s.apply_formatting(other, step[1], step[2], topmost=step[3])
            else:
                s.apply_formatting(spelled if use_spelled else canon(), step[0], step[1], topmost=step[2])
        return [s.settings_at(i) for i in range(10)], str(s)

    ctx.ev('nested-twice')
    ctx.sig('nested-twice')
    ctx.nontriv(('nested', spelled, repr(plan)))
    try:
        a = build(True)
        b = build(False)
    except Exception as e:
        ctx.violation('nested-twice-raised', {'spelling': spelled, 'plan': repr(plan), 'error': repr(e)}, mech='nested-twice-raised')
        return
    if a != b:
        ctx.violation('nested-twice-differs', {'spelling': spelled, 'plan': repr(plan), 'spelled': a[0], 'canonical': b[0]},
                      mech='spelling-shares-objects')


def contracts(ctx, mon):
    return []


def drive(ctx, mon, tier, only_case=None):
    L = ctx.L
    names = list(L.AnsiFormat.__members__)
    nsh = ctx.extra.get('nshards', 1)
    mine = [n for i, n in enumerate(names) if i % nsh == ctx.shard]
    ctx.extra['n_members_total'] = len(names) if ctx.shard == 0 else 0
    ctx.extra['n_members_enumerated'] = 0
    ctx.extra['n_codes_enumerated'] = 0

    def body(rng, ex, case):
        with mon.quiet():
            if case == 0:
                # exhaustive part: every AnsiFormat member (aliases included) of this shard's share
                for n in mine:
                    check_member(ctx, L, rng, n, L.AnsiFormat.__members__[n])
                    ctx.extra['n_members_enumerated'] += 1
                lo = 256 * ctx.shard // nsh
                hi = 256 * (ctx.shard + 1) // nsh
                check_codes(ctx, L, rng, lo, hi)
                ctx.extra['n_codes_enumerated'] += hi - lo
                return
            for _ in range(6):
                check_helpers(ctx, L, rng)
            for _ in range(4):
                check_negative(ctx, L, rng)
            for _ in range(6):
                check_mixture(ctx, L, rng, names)
            for _ in range(4):
                check_nested(ctx, L, rng, names)
            for _ in range(4):
                check_int_nesting(ctx, L, rng, names)

    run_cases(ctx, mon, CASES[tier], body, only_case=only_case)
