"""C15 - valid/parsable flags are exact; valid formatting renders well-formed escapes."""
import re

from .. import obs as O
from .. import sgr_model as M
from .common import Contract, ansi_values, history, run_cases, tier_sizes, FLAG_COMBOS, safe_obs
from ..gen import FAMILIES

PROP = 'C15'
RULE = ('case = (a) one setting text (length 1..12 over digits ; space : < = > ? terminator bytes letters, biased to '
        'near-misses such as 38;5 / 38;5;256 / 38;2;1;2 / 0 / 00 / 1;1 / 1m, plus every single code 0..300): '
        'AnsiSetting.valid vs "no char in 0x40-0x7E", AnsiSetting.parsable vs a strict grammar, each flag queried '
        'twice and in both orders on fresh objects; (b) is_formatting_valid/parsable/is_optimizable of a reachable '
        'value vs the conjunction over the settings it reports; (c) for every value with is_formatting_valid() and '
        'ESC-free text: under all 8 flag sets, removing every ESC [ parameter-bytes m leaves base_str, and every '
        'verbatim (unparsable) setting in use appears intact inside a sequence.  Non-trivial: text is not a single '
        'known code; distinct = distinct text / (value, flags).')
ASSUMPTIONS = ['"known" codes are those the library documents (AnsiParam): typed independently in vf/sgr_model.py',
               'tokens that only Python int() accepts (padding, sign, underscores, non-ASCII digits) are grey']
MIN_EVAL = 1000
CASES = {'quick': 800, 'thorough': 10800}
WEIGHTS = {'apply': 14, 'remove': 3, 'simplify': 1, 'flags': 8, 'iadd': 6, 'add': 3, 'assign_str': 2, 'clip': 2,
           'replace': 2, 'pad': 2}

ALPHA = '0123456789;;;; :<=>?mHJ~@aZ[\\'
NEAR = ['38;5', '38;5;256', '38;2;1;2', '38;2;1;2;3', '38;2;1;2;3;4', '0', '00', '1;1', '1m', '1', '01', '001', '38',
        '48;5;0', '58;2;0;0;0', '58;5;255', '38;5;255', '38;5;-1', '38;6;1', '38;2;256;0;0', '22', '10', '20', '21',
        '26', '50', '55', '56', '59', '60', '90', '97', '98', '99', '100', '107', '108', '255', '256', '1;', ';1', ';',
        '1;2', '4;58;5;1', '39', '49', '30', '37', '47', '40', '5', '6', '1 ', ' 1', '+1', '1_0', '1.0', '1e1', '0x1',
        '１', '1;0', '0;1', 'é', '\x7f', '?1', '<1', '1:2', '38:5:1', '38;5;1 ', '38;5;0', '38;02;1;2;3', '0038;5;1']
PARAM_RE = re.compile('\x1b\\[[\\x20-\\x3f]*m')


def oracle_valid(t):
    return not any(0x40 <= ord(c) <= 0x7e for c in t)


def oracle_parsable(t):
    """True / False / None (grey)"""
    if not oracle_valid(t):
        return False
    toks = t.split(';')
    vals = []
    grey = False
    for tok in toks:
        if re.fullmatch('[0-9]+', tok) and tok.isascii():
            vals.append(int(tok))
            continue
        return False                # not written in plain ASCII digits: not a code a terminal reads
    if vals[0] == 0:
        return False
    c = vals[0]
    if c in M.EXT:
        rest = vals[1:]
        if rest[:1] == [5]:
            return len(rest) == 2 and 0 <= rest[1] <= 255
        if rest[:1] == [2]:
            return len(rest) == 4 and all(0 <= x <= 255 for x in rest[1:])
        return False
    if c in M.APPLY or c in M.CLEAR:
        return len(vals) == 1
    return False


def gen_setting_text(rng):
    r = rng.random()
    if r < 0.35:
        return rng.choice(NEAR)
    if r < 0.55:
        # one known / unknown code, possibly decorated
        c = str(rng.randint(0, 120))
        return c + rng.choice(['', '', '', ';', 'm', ' ', ';1', ';0'])
    if r < 0.7:
        base = rng.choice([38, 48, 58])
        k = rng.choice([5, 2, 2, 5, 3])
        args = [str(rng.choice([0, 1, 128, 255, 256, 999])) for _ in range(rng.randint(0, 4))]
        return ';'.join([str(base), str(k)] + args)
    n = rng.randint(1, 12)
    return ''.join(rng.choice(ALPHA) for _ in range(n))


def check_flags(ctx, L, t):
    try:
        s1 = L.AnsiSetting(t)
        s2 = L.AnsiSetting(t)
    except ValueError:
        return
    v1, p1, v1b, p1b = s1.valid, s1.parsable, s1.valid, s1.parsable
    p2, v2, p2b = s2.parsable, s2.valid, s2.parsable
    ctx.ev('flags')
    ev = oracle_valid(t)
    ep = oracle_parsable(t)
    if not re.fullmatch('[0-9]+', t) or int(t) not in M.KNOWN_CODES:
        ctx.nontriv(('text', t))
    if len({v1, v1b, v2}) != 1 or len({p1, p1b, p2, p2b}) != 1:
        ctx.violation('flag-depends-on-query-order', {'text': t, 'valid': [v1, v1b, v2], 'parsable': [p1, p1b, p2, p2b]},
                      mech='flag-cache')
        return
    if v1 != ev:
        ctx.violation('valid-flag', {'text': t, 'expected': ev, 'got': v1}, mech='valid-flag')
    if ep is None:
        ctx.grey('token-only-python-int-accepts')
        return
    ctx.sig('parsable=%s:valid=%s' % (ep, ev))
    if p1 != ep:
        ctx.violation('parsable-flag', {'text': t, 'expected': ep, 'got': p1}, mech='parsable-flag:%s' % ep)


class FormattingFlagsContract(Contract):
    prop = PROP
    methods = {('*', 'is_formatting_valid'), ('*', 'is_formatting_parsable'), ('*', 'is_optimizable')}

    def pre(self, call):
        return O.observe(call.recv)

    def post(self, call, o, result, exc):
        ctx = self.ctx
        if exc is not None:
            return
        objs = []
        for row in o.objs:
            objs += row
        if call.name == 'is_formatting_valid':
            exp = all(s.valid for s in objs)
        else:
            exp = all(s.parsable for s in objs)
        ctx.ev('conjunction')
        ctx.sig('%s=%s' % (call.name, exp))
        if result is not exp:
            ctx.violation('formatting-flag-not-conjunction', {'method': call.name, 'value': o.describe(), 'expected': exp,
                                                              'got': result}, call, mech='conjunction:' + call.name)


def contracts(ctx, mon):
    return [FormattingFlagsContract(ctx)]


def render_probe(ctx, mon, v):
    """(c): strip-and-compare + intactness of verbatim settings"""
    L = ctx.L
    o = safe_obs(mon, v)
    if o is None:
        return
    try:
        fv = v.is_formatting_valid()
        v.is_formatting_parsable()
        v.is_optimizable()
    except Exception:
        return
    if not fv:
        ctx.grey('formatting-not-valid')
        return
    if O.has_esc(o.text):
        ctx.grey('esc-in-text')
        return
    texts = o.all_texts()
    if any(not all(0x20 <= ord(c) <= 0x3f for c in t) for t in texts):
        ctx.grey('valid-setting-outside-parameter-bytes')
        return
    verb = []
    with mon.quiet():
        for row in o.objs:
            for s in row:
                if not s.parsable and str(s) not in verb:
                    verb.append(str(s))
        optimizable = not verb
        outs = [(opt, rs, re_, v.to_str(optimize=opt, reset_start=rs, reset_end=re_)) for opt, rs, re_ in FLAG_COMBOS]
        if isinstance(v, L.AnsiStr):
            outs.append(('payload', False, True, str.__str__(v)))       # what print()/write() see
        for opt, rs, re_, out in outs:
            ctx.ev('render-wellformed')
            stripped = PARAM_RE.sub('', out)
            det = {'value': o.describe(), 'out': out, 'flags': [opt, rs, re_]}
            if stripped != o.text:
                ctx.violation('strip-does-not-give-base_str', dict(det, stripped=stripped), mech='render-not-wellformed')
                return
            if verb and opt != 'payload' and (not opt or not optimizable):
                bodies = [m.group(0)[2:-1] for m in PARAM_RE.finditer(out)]
                for t in verb:
                    pat = re.compile('(?:^|;)' + re.escape(t) + '(?:;|$)')
                    if not any(pat.search(b) for b in bodies):
                        ctx.violation('verbatim-setting-not-intact', dict(det, setting=t), mech='verbatim-not-intact')
                        return
        ctx.sig('render:%s' % ('verbatim' if verb else 'parsable-only'))
        if o.styled():
            ctx.nontriv(('render', o.key()))
            if len(ctx.samples) < 8:
                ctx.sample({'value': o.describe(), 'verbatim': verb})


def guaranteed_forms(ctx, L, rng):
    """settings given as members, names, known non-reset int codes, in-range helper results: valid and parsable"""
    forms = []
    fam = rng.choice(list(FAMILIES))
    for f in FAMILIES[fam]:
        if isinstance(f, dict) and 'S' in f:
            continue
        if isinstance(f, str) and (';' in f):
            continue
        if isinstance(f, int) and f not in M.APPLY and f not in M.CLEAR:
            continue
        forms.append(f)
    from ..gen import Exec
    ex = Exec(L)
    for f in forms:
        try:
            s = L.AnsiString('x', ex.dec(f))
        except Exception as e:
            ctx.ev('guaranteed-form')
            ctx.violation('guaranteed-form-rejected', {'form': repr(f), 'error': repr(e)}, mech='guaranteed-rejected')
            continue
        ctx.ev('guaranteed-form')
        ok = s.is_formatting_valid() and s.is_formatting_parsable() and all(
            x.valid and x.parsable for x in s.ansi_settings_at(0))
        if not ok:
            ctx.violation('guaranteed-form-not-parsable', {'form': repr(f), 'settings': s.settings_at(0)},
                          mech='guaranteed-not-parsable')


def int_code_runs(ctx, L, rng):
    """settings given as known non-reset integer codes (any run of complete groups, colour arguments that look
    like introducers or selectors included) are always valid and parsable"""
    toks = []
    groups = []
    for _ in range(rng.randint(1, 4)):
        r = rng.random()
        if r < 0.6:
            base = rng.choice([38, 48, 58])
            if rng.random() < 0.5:
                g = [base, 5, rng.choice([38, 48, 58, 2, 5, 0, 7, 255])]
            else:
                g = [base, 2] + [rng.choice([38, 48, 58, 2, 5, 0, 1, 255]) for _ in range(3)]
        else:
            g = [rng.choice([1, 2, 3, 4, 5, 7, 9, 21, 22, 31, 39, 44, 49, 53, 59, 97, 107])]
        groups.append(';'.join(str(x) for x in g))
        toks += g
    form = rng.randrange(3)
    try:
        s = L.AnsiString('x', *toks) if form == 0 else L.AnsiString('x', list(toks)) if form == 1 else \
            L.AnsiString('x', ';'.join(str(t) for t in toks))
    except Exception as e:
        ctx.ev('guaranteed-form')
        ctx.violation('guaranteed-form-rejected', {'codes': toks, 'error': repr(e)}, mech='guaranteed-rejected')
        return
    ctx.ev('guaranteed-form')
    ctx.nontriv(('int-run', tuple(toks), form))
    rep = [str(x) for x in s.ansi_settings_at(0)]
    if rep != groups or not (s.is_formatting_valid() and s.is_formatting_parsable()):
        ctx.violation('integer-codes-not-parsable', {'codes': toks, 'expected_groups': groups, 'reported': rep,
                                                     'parsable': s.is_formatting_parsable()}, mech='guaranteed-not-parsable')


def drive(ctx, mon, tier, only_case=None):
    L = ctx.L
    sz = tier_sizes(tier)

    def body(rng, ex, case):
        with mon.quiet():
            if case == 0:
                for n in range(0, 301):
                    check_flags(ctx, L, str(n))
                for t in NEAR:
                    check_flags(ctx, L, t)
            for _ in range(60):
                check_flags(ctx, L, gen_setting_text(rng))
            guaranteed_forms(ctx, L, rng)
            for _ in range(6):
                int_code_runs(ctx, L, rng)
        # values mixing such settings with named ones
        hg = history(L, rng, ex, rng.randint(1, 10), sz['maxlen'], rng.choice(['mixed', 'hostile', 'wf']), WEIGHTS)
        for _ in range(rng.randint(0, 3)):
            ri = hg.pick_val()
            if ri is None:
                break
            t = gen_setting_text(rng)
            if not t:
                continue
            n = len(ex.pool[ri].base_str)
            ex.run({'m': 'apply_formatting', 'r': ri, 'a': [{'S': t} if rng.random() < 0.5 else '[' + t,
                                                           rng.randint(0, max(0, n - 1)), rng.choice([None, n, n - 1])]})
        for _ in range(rng.randint(0, 3)):
            # query, extend in place with a value carrying a verbatim / invalid setting, query again
            ri = hg.pick_val()
            if ri is None or not isinstance(ex.pool[ri], L.AnsiString):
                continue
            ex.run({'m': rng.choice(['is_formatting_valid', 'is_formatting_parsable', 'str']), 'r': ri})
            t = gen_setting_text(rng)
            if t:
                ex.run({'m': 'new', 'cls': rng.choice(['AnsiString', 'AnsiStr']), 'a': ['de', {'S': t}]})
                ex.run({'m': rng.choice(['iadd', 'iadd', 'add']), 'r': ri, 'a': [{'$': len(ex.pool) - 1}]})
            ex.run({'m': rng.choice(['is_formatting_valid', 'is_formatting_parsable', 'is_optimizable']), 'r': ri})
        for v in ansi_values(L, ex)[-6:]:
            try:
                v.is_formatting_valid()
                v.is_formatting_parsable()
                v.is_optimizable()
            except Exception:
                pass
            render_probe(ctx, mon, v)

    run_cases(ctx, mon, CASES[tier], body, only_case=only_case)
