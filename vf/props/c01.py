"""C01 - rendered output displays the text with exactly the reported per-character styles."""
from .. import obs as O
from .common import (trie_case, Contract, FLAG_COMBOS, ansi_values, history, render_failures, run_cases, tier_sizes,
                     transitions, safe_obs, transition_values, small_scope_values, small_scope_on,
                     stack_values)

PROP = 'C01'
RULE = ('case = one rendering call (to_str/str/format without format spec) on a value reachable by a random '
        'history of public operations, under one of the 8 optimize/reset_start/reset_end combinations; '
        'judged against the reference SGR terminal started from the default state and (reset_start) from a '
        'state with all 14 groups set.  Non-trivial: the value has >= 2 adjacent characters with different '
        'display styles; distinct = distinct (text, per-character setting texts, flags).')
ASSUMPTIONS = ['SGR effect-group model of DESIGN 2.1 is the meaning of "conforming terminal"',
               'ansi_settings_at/base_str are the observation channel for the reported styles',
               'values with ill-formed setting texts or ESC in the text are grey (not judged)']
MIN_EVAL = 300
CASES = {'quick': 480, 'thorough': 5000}
WEIGHTS = {'apply': 12, 'remove': 5, 'query': 0.2, 'find_settings': 0.2, 'settings_at': 0.2, 'to_str': 0.3,
           'format': 0.5}


class RenderContract(Contract):
    prop = PROP
    methods = {('*', 'to_str'), ('*', '__str__'), ('*', '__format__')}

    def pre(self, call):
        spec = None
        if call.name in ('to_str', '__format__'):
            spec = call.arg(0, 'format_spec' if call.name == 'to_str' else '_AnsiString__format_spec')
            if call.name == '__format__' and spec is None and call.kwargs:
                spec = list(call.kwargs.values())[0]
        if spec:
            return None
        return O.observe(call.recv)

    def post(self, call, o, result, exc):
        ctx = self.ctx
        if o is None or exc is not None or not isinstance(result, str):
            return
        if call.name == 'to_str':
            opt = call.arg(1, 'optimize', True)
            rs = call.arg(2, 'reset_start', False)
            re_ = call.arg(3, 'reset_end', True)
        else:
            opt, rs, re_ = True, False, True
        fails, grey = render_failures(o, result, rs, re_)
        if grey:
            ctx.grey(grey)
            return
        ctx.ev('render')
        sty, _ = O.styles(o)
        tr = transitions(sty)
        flags = '%d%d%d' % (bool(opt), bool(rs), bool(re_))
        ctx.sig('flags:' + flags)
        for g, kind in tr:
            ctx.sig('%s:%s' % (g, kind))
        if len(set(sty)) >= 2:
            ctx.nontriv((o.key(), flags))
        ctx.sample({'text': o.text, 'settings': [';'.join(r) for r in o.texts], 'flags': flags, 'out': result})
        for clause, detail in fails:
            mech = clause
            if clause.startswith('reset_start') or clause.startswith('reset_end-nondefault-after-dirty'):
                mech = 'reset_start'
            detail = dict(detail) if isinstance(detail, dict) else {'info': detail}
            detail.update({'value': o.describe(), 'out': result, 'flags': {'optimize': opt, 'reset_start': rs,
                                                                           'reset_end': re_}})
            ctx.violation(clause, detail, call, mech=mech)


def contracts(ctx, mon):
    return [RenderContract(ctx)]


def combining_probe(ctx, mon, rng):
    """change points that fall on combining marks, joiners, variation selectors, astral characters: the style of every
    *character* (code point) is what the object reports for it, wherever a grapheme cluster would begin or end"""
    L = ctx.L
    try:
        with mon.quiet():
            t = rng.choice(['cafe\u0301 n\u0303o', 'a\u0323\u0308b c', 'x\u200dy\ufe0fz', '\U0001d400b\U0001f600c',
                            '\u05e9\u05b8\u05dc\u05d5\u05dd', 'e\u0301\u0301e'])
            v = L.AnsiString(t)
            for _ in range(rng.randint(1, 3)):
                a = rng.randrange(len(t))
                v.apply_formatting(rng.choice(['red', 'bold', 'bg_blue', 'underline', 'italic']), a,
                                   min(len(t), a + rng.randint(1, 3)), topmost=rng.random() < 0.8)
            if rng.random() < 0.3:
                v = L.AnsiStr(v)
        ctx.sig('combining-probe')
        probe_value(ctx, mon, v)
    except Exception:
        ctx.aborted['combining-probe-raised'] += 1


def render_extend_render(ctx, mon, rng):
    """one object: rendered, then extended by `+=` / in-place replace / join with a piece whose setting is a
    well-formed multi-code group (two effects in one setting) or a clear code, then rendered again - whatever a
    rendering remembers about the value (what is parsable, what was optimised) must not survive the change"""
    L = ctx.L
    try:
        with mon.quiet():
            v = L.AnsiString(rng.choice(['ab', 'a', 'abc']), *rng.choice([['italic'], ['red'], [], ['bold', 'bg_blue']]))
        probe_value(ctx, mon, v)
        with mon.quiet():
            same = rng.choice([['italic'], ['red'], []])
            p1 = L.AnsiString('cd', *same, rng.choice(['[1;31', '[4;58;5;9', '[22;39', '[1;4', '[38;5;1;1']))
            p2 = L.AnsiString('ef', *same)
            k = rng.randrange(3)
            if k == 0:
                v += p1
                v += p2
            elif k == 1:
                v += p2
                v.replace('e', p1, inplace=True)
            else:
                v += p1
                v += 'gh'
                v.apply_formatting('underline', 1, 3)
        ctx.sig('render-extend-render')
        probe_value(ctx, mon, v)
    except Exception:
        ctx.aborted['render-extend-render-raised'] += 1


def probe_value(ctx, mon, v):
    """render under all 8 flag combinations (the contract judges each call) and check
    str(v) == format(v, '') == to_str()"""
    outs = {}
    for opt, rs, re_ in FLAG_COMBOS:
        try:
            outs[(opt, rs, re_)] = v.to_str(optimize=opt, reset_start=rs, reset_end=re_)
        except Exception:
            ctx.aborted['to_str-raised'] += 1
            return
    try:
        a, b, c = str(v), format(v, ''), v.to_str()
    except Exception:
        ctx.aborted['str-raised'] += 1
        return
    ctx.ev('str==format==to_str')
    if not (a == b == c):
        o = safe_obs(mon, v)
        ctx.violation('str-format-to_str-differ', {'str': a, 'format': b, 'to_str': c,
                                                   'value': o.describe() if o else None}, mech='str-format-differ')


def drive(ctx, mon, tier, only_case=None):
    L = ctx.L
    sz = tier_sizes(tier)

    def body(rng, ex, case):
        if case == 0:
            # systematic part: every kind of transition of every effect group (DESIGN 4, C01 workload)
            with mon.quiet():
                vals = list(transition_values(L, rng, ctx.shard, ctx.extra.get('nshards', 1)))
                vals += list(stack_values(L, rng, ctx.shard, ctx.extra.get('nshards', 1)))
            ctx.extra['n_transition_values'] = len(vals)
            for v in vals:
                probe_value(ctx, mon, v)
            return
        if case == 1:
            m = small_scope_on(ctx, tier)
            with mon.quiet():
                vals = [v for v, _ in small_scope_values(L, m, ctx.shard, ctx.extra.get('nshards', 1))]
            ctx.extra['n_small_scope_values'] = len(vals)
            for v in vals:
                probe_value(ctx, mon, v)
            return
        if case == 2:
            # every history of up to 2 (quick) / 3 (thorough) apply/remove operations: each node is rendered and judged
            trie_case(ctx, mon, tier, 2, 3, visit=lambda v, p: probe_value(ctx, mon, v),
                      cls=L.AnsiStr if ctx.shard % 4 == 3 else None)
            return
        profile = 'mixed' if rng.random() < 0.35 else 'wf'
        history(L, rng, ex, rng.randint(1, sz['nops']), sz['maxlen'], profile, WEIGHTS)
        for v in ansi_values(L, ex):
            probe_value(ctx, mon, v)
        render_extend_render(ctx, mon, rng)
        if rng.random() < 0.3:
            combining_probe(ctx, mon, rng)

    run_cases(ctx, mon, CASES[tier], body, only_case=only_case)
