"""C05 - concatenation keeps each operand's per-character styles; no bleed at the seam."""
from .. import obs as O
from .common import (trie_case, Contract, ansi_values, history, run_cases, tier_sizes, safe_obs, is_ansi, is_plain_str,
                     render_failures, GROUP_CODES, small_scope_values, small_scope_on)

PROP = "C05"
RULE = ('case = one a + b, a += b or join(x1..xn) on reachable operands (AnsiString/AnsiStr/str; equal, '
        'prefix-equal, reordered, different, nested settings at the seam; operands produced by padding, '
        'out-of-range apply, slicing, remove; an operand with itself), each result character compared '
        '(precedence-equivalence) with its own operand; join compared with the left fold of +; plus the '
        'split-and-rejoin probe s[:k] + s[k:] for every k (settings and emulated display).  Non-trivial: both '
        'sides styled at the seam; distinct = distinct operand observations.')
ASSUMPTIONS = ['precedence-equivalence (DESIGN 2.2)', 'plain-str operands containing ESC are grey']
MIN_EVAL = 400
CASES = {'quick': 360, 'thorough': 2250}
WEIGHTS = {'apply': 10, 'add': 12, 'iadd': 8, 'join': 6, 'pad': 5, 'getitem': 5, 'remove': 4, 'query': 0.1,
           'find_settings': 0.1, 'settings_at': 0.1, 'copy': 2.5}


def seam_class(a, b):
    if not a or not b:
        return 'empty-operand'
    la, fb = a.texts[-1], b.texts[0]
    if not la and not fb:
        return 'plain|plain'
    if not la or not fb:
        return 'styled|plain' if la else 'plain|styled'
    if la == fb:
        return 'equal'
    if sorted(la) == sorted(fb):
        return 'reordered'
    if la[:len(fb)] == fb or fb[:len(la)] == la:
        return 'prefix'
    if set(la) & set(fb):
        return 'overlapping'
    return 'different'


class ConcatContract(Contract):
    prop = PROP
    methods = {('*', '__add__'), ('*', '__iadd__'), ('*', 'join')}

    def pre(self, call):
        L = self.L
        ops = list(call.args) if call.name == 'join' else [call.recv] + list(call.args[:1])
        if call.name != 'join' and not call.args:
            return None
        obs = []
        for x in ops:
            if is_ansi(L, x):
                obs.append(O.observe(x))
            elif isinstance(x, str):
                obs.append(O.plain_obs(x))
            else:
                return None     # wrong type: C09's business
        return obs

    def post(self, call, obs, result, exc):
        ctx = self.ctx
        L = self.L
        if obs is None:
            return
        esc = any(O.has_esc(o.text) for o in obs)
        if esc and (call.name != 'join' or exc is not None):
            ctx.grey('esc-in-operand')
            return
        det = {'operands': [o.describe() for o in obs], 'op': call.name}
        if esc:
            # operands containing escape sequences: the per-character clauses are grey, but join must still equal
            # the left fold of + (a differential between two paths of the library)
            ctx.grey('esc-in-operand:per-character-clauses')
            if is_ansi(L, result):
                self.join_vs_fold(call, det, result, O.observe(result))
            return
        ctx.ev('concat')
        if exc is not None:
            ctx.violation('raised', dict(det, error=repr(exc)), call, mech='concat-raised')
            return
        if not is_ansi(L, result):
            ctx.violation('result-type', dict(det, got=repr(type(result))), call, mech='concat-type')
            return
        r = O.observe(result)
        det['result'] = r.describe()
        if len(obs) >= 2:
            sc = seam_class(obs[0], obs[1])
            prov = 'self' if (call.name != 'join' and call.args and call.args[0] is call.recv) else 'distinct'
            ctx.sig('%s:%s:%s' % (call.name, sc, '+'.join(o.kind for o in obs[:2])))
            if prov == 'self':
                ctx.sig('operand-with-itself')
            if sc not in ('empty-operand', 'plain|plain', 'styled|plain', 'plain|styled'):
                ctx.nontriv(tuple(o.key() for o in obs))
                if len(ctx.samples) < 10:
                    ctx.sample(det)
        exp_text = ''.join(o.text for o in obs)
        if r.text != exp_text:
            ctx.violation('text', dict(det, expected_text=exp_text), call, mech='concat-text')
            return
        pos = 0
        for j, o in enumerate(obs):
            d = O.first_diff_equiv(o.texts, r.texts[pos:pos + len(o)])
            if d is not None:
                ctx.violation('settings', dict(det, operand=j, at=d, expected=o.texts[d], got=r.texts[pos + d]),
                              call, mech='concat-settings-operand%d' % min(j, 1))
                return
            pos += len(o)
        if call.name == 'join' and obs:
            self.join_vs_fold(call, det, result, r)

    def join_vs_fold(self, call, det, result, r):
        ctx = self.ctx
        L = self.L
        if True:
            ctx.ev('join-vs-fold')
            try:
                x0 = call.args[0]
                acc = x0 if is_ansi(L, x0) else L.AnsiString(x0)
                if len(call.args) == 1:
                    acc = L.AnsiString(acc)
                for x in call.args[1:]:
                    acc = acc + x
                fo = O.observe(acc)
                same = fo.text == r.text and O.first_diff_equiv(fo.texts, r.texts) is None and str(acc) == str(result)
            except Exception as e:
                ctx.violation('join-fold-raised', dict(det, error=repr(e)), call, mech='join-fold')
                return
            if not same:
                ctx.violation('join-differs-from-fold', dict(det, fold=fo.describe()), call, mech='join-fold')


def contracts(ctx, mon):
    return [ConcatContract(ctx)]


def split_rejoin_probe(ctx, mon, v, rng):
    L = ctx.L
    o = safe_obs(mon, v)
    if o is None or O.has_esc(o.text):
        return
    n = len(o.text)
    ks = range(n + 1) if n <= 14 else sorted(set(rng.sample(range(n + 1), 10) + o.change_points()[:6] + [0, n]))
    with mon.quiet():
        sty, grey = O.styles(o)
        for k in ks:
            ctx.ev('split-rejoin')
            try:
                j = v[:k] + v[k:]
                jo = O.observe(j)
                out = str(j)
            except Exception as e:
                ctx.violation('split-rejoin-raised', {'value': o.describe(), 'k': k, 'error': repr(e)},
                              mech='split-rejoin-raised')
                return
            det = {'value': o.describe(), 'k': k, 'rejoined': jo.describe()}
            if jo.text != o.text:
                ctx.violation('split-rejoin-text', det, mech='split-rejoin-text')
                return
            d = O.first_diff_equiv(o.texts, jo.texts)
            if d is not None:
                ctx.violation('split-rejoin-settings', dict(det, at=d), mech='split-rejoin-settings')
                return
            if not grey:
                fails, g = render_failures(o, out, False, True)
                if not g and fails:
                    ctx.violation('split-rejoin-display', dict(det, out=out, fail=fails[0][0], info=fails[0][1]),
                                  mech='split-rejoin-display')
                    return
        if o.styled() and o.change_points():
            ctx.nontriv(('sr', o.key()))


def many_join(ctx, mon, rng, vals):
    """join of 9..14 operands (pool values, their slices, styled words, plain strs): a bulk path for many arguments
    must give what the left fold gives"""
    L = ctx.L
    short = [v for v in vals if len(v.base_str) <= 12][-6:]
    with mon.quiet():
        words = [L.AnsiString('w%d' % i, rng.choice(['red', 'bold', 'italic', 'bg_blue', 'underline'])) for i in range(4)]
        parts = []
        for _ in range(rng.randint(9, 14)):
            r = rng.random()
            if r < 0.35 and short:
                v = rng.choice(short)
                parts.append(v if r < 0.2 else v[:rng.randint(0, 3)])
            elif r < 0.8:
                w = rng.choice(words)
                parts.append(w if rng.random() < 0.7 else L.AnsiStr(w))
            else:
                parts.append(rng.choice(['', ' ', 'q']))
    ctx.sig('many-join')
    try:
        (L.AnsiString if rng.random() < 0.6 else L.AnsiStr).join(*parts)
    except Exception:
        pass


def seam_workshop_resized(ctx, mon, rng, L):
    """left operands whose text was cut or grown after formatting (assign_str, in-place clip / strip / pad): a style
    that began exactly where the text now ends, or ended where it used to end, must not reach the right operand"""
    with mon.quiet():
        a = L.AnsiString('abcdef')
        for _ in range(rng.choice([1, 2])):
            st = rng.choice([0, 2, 3, 4])
            a.apply_formatting(rng.choice(['red', 'bold', 'bg_blue', 'italic']), st, rng.choice([st + 1, st + 2, None]),
                               topmost=rng.random() < 0.8)
        k = rng.choice([0, 2, 3, 4, 6])
        how = rng.randrange(5)
        if how == 0:
            a.assign_str('abcdef'[:k])
        elif how == 1:
            a.assign_str('abcdefgh')
        elif how == 2:
            a.clip(0, k, inplace=True)
        elif how == 3:
            a.assign_str('')
        else:
            a.rstrip('def', inplace=True)
        left = L.AnsiStr(a) if rng.random() < 0.25 else a
        right = rng.choice(['xyz', L.AnsiString('xyz', 'underline'), L.AnsiStr('xy', 'red')])
    ctx.sig('seam-workshop:resized')
    try:
        r = rng.random()
        if r < 0.5:
            left + right
        elif r < 0.75 and isinstance(left, L.AnsiString):
            left += right
        else:
            (L.AnsiString if rng.random() < 0.5 else L.AnsiStr).join(left, right)
    except Exception:
        pass


def seam_workshop_duplicates(ctx, mon, rng, L):
    """the seam at which equal settings are carried over, with *equal-valued duplicates* in the stack: the left operand
    is a slice whose settings (x, y, x of one effect group) stop together at its end - in an order that differs from
    the order they take effect in -, the right operand starts with the same values in the left's effect order and
    lets them end at different characters.  Which of two equal settings is carried over then matters."""
    g = rng.choice(sorted(GROUP_CODES))
    ap, cl = GROUP_CODES[g]
    x = rng.choice(ap)
    y = rng.choice([c for c in ap if c != x] + [cl])
    pat = rng.choice([[x, y, x], [x, x, y], [y, x, x], [x, x], [x, y, x, y], [x, cl, x]])
    with mon.quiet():
        k = rng.choice([2, 3, 4])
        a = L.AnsiString('abcdef')
        for c in pat:
            st = rng.choice([0, 0, 1, k - 1])
            a.apply_formatting('[' + c, st, rng.choice([k, k, k + 1, 6]), topmost=rng.random() < 0.75)
        left = a[0:k]
        order = [str(s) for s in left.ansi_settings_at(k - 1)]
        if rng.random() < 0.25:
            left = L.AnsiStr(left)
        right = L.AnsiString('xyz')
        for c in order:
            right.apply_formatting('[' + c, 0, rng.choice([1, 2, 3]), topmost=rng.random() < 0.85)
        if rng.random() < 0.25:
            right = L.AnsiStr(right)
    ctx.sig('seam-workshop:duplicates')
    try:
        r = rng.random()
        if r < 0.5:
            left + right
        elif r < 0.75 and isinstance(left, L.AnsiString):
            left += right
        else:
            (L.AnsiString if rng.random() < 0.5 else L.AnsiStr).join(left, right, rng.choice(['', 'q']))
    except Exception:
        pass


def seam_workshop(ctx, mon, rng, L):
    """equal / reordered / prefix seams built on purpose: the left operand is a slice whose settings stop in an
    order different from the order they take effect in, the right operand starts with equal-valued settings in
    some permutation"""
    if rng.random() < 0.4:
        return seam_workshop_duplicates(ctx, mon, rng, L)
    if rng.random() < 0.25:
        return seam_workshop_resized(ctx, mon, rng, L)
    groups = rng.sample(sorted(GROUP_CODES), rng.choice([1, 1, 2]))
    pool = []
    for g in groups:
        ap, cl = GROUP_CODES[g]
        pool += ap + [cl]
    codes = [rng.choice(pool) for _ in range(rng.choice([2, 2, 3]))]
    with mon.quiet():
        a = L.AnsiString('abcdef')
        for c in codes:
            a.apply_formatting(c, rng.choice([0, 0, 1]), rng.choice([2, 3, 4, 5, 6]), topmost=rng.random() < 0.7)
        k = rng.choice([2, 3, 4, 5])
        left = a[0:k] if rng.random() < 0.8 else a
        if rng.random() < 0.3:
            left = L.AnsiStr(left)
        perm = list(codes)
        rng.shuffle(perm)
        perm = perm[:rng.choice([len(perm), len(perm), max(1, len(perm) - 1)])]
        right = L.AnsiString('xyz')
        for c in perm:
            right.apply_formatting(c, 0, rng.choice([1, 2, 3]), topmost=rng.random() < 0.8)
        if rng.random() < 0.3:
            right = L.AnsiStr(right)
    ctx.sig('seam-workshop')
    try:
        r = rng.random()
        if r < 0.5:
            left + right
        elif r < 0.75 and isinstance(left, L.AnsiString):
            left += right
        else:
            (L.AnsiString if rng.random() < 0.5 else L.AnsiStr).join(left, right, rng.choice(['', 'q', left]))
    except Exception:
        pass


def self_insertion(ctx, mon, rng, L):
    """a value combined with itself repeatedly (a + a, replace('', a), slices of the result re-joined): the same
    setting objects end up in both operands"""
    g = rng.choice(sorted(GROUP_CODES))
    ap, cl = GROUP_CODES[g]
    with mon.quiet():
        s = L.AnsiString(rng.choice(['ab', 'baa', 'aab', 'abab']))
        for _ in range(rng.choice([1, 2, 3])):
            s.apply_formatting(rng.choice(ap + [cl]), rng.choice([0, 0, 1]), rng.choice([None, 1, 2, 3]),
                               topmost=rng.random() < 0.7)
        if rng.random() < 0.5:
            s.assign_str(s.base_str + rng.choice(['b', 'ab', 'bab']))
    ctx.sig('self-insertion')
    x = s
    try:
        for _ in range(rng.choice([1, 2, 3])):
            if len(x.base_str) > 60:
                break
            r = rng.random()
            if r < 0.3:
                x = x + x
            elif r < 0.5:
                x = x.replace('', s, rng.choice([-1, 2, 3]))
            elif r < 0.65:
                x = x.replace(rng.choice(x.base_str or 'a'), s)
            elif r < 0.85:
                k = rng.randint(0, len(x.base_str))
                x = x[:k] + x[k:]
            else:
                x = type(x).join(x, s, x)
        k = rng.randint(0, len(x.base_str))
        x[:k] + s + x[k:]
    except Exception:
        pass


def drive(ctx, mon, tier, only_case=None):
    L = ctx.L
    sz = tier_sizes(tier)

    def body(rng, ex, case):
        if case == 0:
            # bounded-exhaustive part: every pair of one-apply small-scope values concatenated (and their slices at
            # every cut), every two-apply value split at every k and re-joined
            m = small_scope_on(ctx, tier)
            with mon.quiet():
                ones = [v for v, _ in small_scope_values(L, 1)]
            nsh = ctx.extra.get('nshards', 1)
            npairs = 0
            for i, a in enumerate(ones):
                if i % nsh != ctx.shard:
                    continue
                for b in ones:
                    npairs += 1
                    a + b
                    if m >= 2:
                        with mon.quiet():
                            x, y = a[1:3], b[0:2]
                        x + y
                        L.AnsiStr.join(x, y, 'q')
            ctx.extra['n_small_scope_pairs'] = npairs
            if m >= 2:
                for v, _ in small_scope_values(L, 2, ctx.shard, nsh):
                    split_rejoin_probe(ctx, mon, v, rng)
            return
        if case == 1:
            with mon.quiet():
                rights = [L.AnsiString('xy'), L.AnsiString('xy', '31'), L.AnsiString('xy', '1', '34'), L.AnsiStr('x', '34') + 'y']
                rights[0].apply_formatting('31', 0, 1)
                rights[2].remove_formatting('1', 1, 2)

            def visit(v, p):
                split_rejoin_probe(ctx, mon, v, rng)
                for r in rights:
                    v + r
                v + v
                r = rights[len(p) % len(rights)]
                r + v
                L.AnsiString.join(v, 'q', r)
            trie_case(ctx, mon, tier, 2, 3, visit=visit, cls=L.AnsiStr if ctx.shard % 4 == 3 else None)
            return
        profile = 'mixed' if rng.random() < 0.3 else 'wf'
        # small setting vocabulary makes equal / reordered seams frequent
        history(L, rng, ex, rng.randint(2, sz['nops']), sz['maxlen'], profile, WEIGHTS)
        vals = ansi_values(L, ex)
        for v in vals[-5:]:
            split_rejoin_probe(ctx, mon, v, rng)
        many_join(ctx, mon, rng, vals)
        # pairwise concatenations of pool values incl. a value with itself
        tail = vals[-5:]
        for a in tail:
            for b in tail:
                if rng.random() < 0.5:
                    try:
                        a + b
                    except Exception:
                        pass
        if tail:
            # plain-str operands carrying escape sequences (each is parsed on its own: an unterminated style ends
            # with its operand), adjacent to further plain strs
            try:
                with mon.quiet():
                    raw = rng.choice(tail).to_str(reset_end=rng.random() < 0.3, reset_start=rng.random() < 0.2)
                ops = [rng.choice(tail), raw, rng.choice(['ef', '', 'x', raw])]
                if rng.random() < 0.4:
                    ops.insert(0, rng.choice(['\x1b[4m', 'p', '\x1b[1mq']))
                (L.AnsiString if rng.random() < 0.6 else L.AnsiStr).join(*ops)
            except Exception:
                pass
        for _ in range(4):
            seam_workshop(ctx, mon, rng, L)
        for _ in range(2):
            self_insertion(ctx, mon, rng, L)
        if len(tail) >= 2 and rng.random() < 0.5:
            try:
                cls = L.AnsiString if rng.random() < 0.6 else L.AnsiStr
                cls.join(*[rng.choice(tail + ['x', '']) for _ in range(rng.randint(1, 4))])
            except Exception:
                pass

    run_cases(ctx, mon, CASES[tier], body, only_case=only_case)
