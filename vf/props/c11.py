"""C11 - substring and editing methods keep the style of every surviving character."""
from .. import obs as O
from .common import trie_case, Contract, ansi_values, history, run_cases, tier_sizes, is_ansi, safe_obs, esc_seam_values, small_scope_values, small_scope_on
from .c10 import STRIP_DEFAULT
from ..gen import gen_text

PROP = 'C11'
STEP_BUDGET = 20000000
RULE = ('case = one split/rsplit/splitlines/partition/rpartition/strip/lstrip/rstrip/removeprefix/removesuffix/'
        'case-conversion/assign_str/replace/expandtabs call on a reachable value with position-dependent formatting; '
        'every character of every returned piece (or of the edited value) is compared (precedence-equivalence) with '
        'the source character at the true offset computed by an independent scanner that is first validated '
        'against str\'s own result for the same call.  Non-trivial: source has >= 2 differently styled characters and '
        'a proper piece is returned / >= 1 replacement made; distinct = distinct (method, source, arguments).')
ASSUMPTIONS = ['offset scanner is cross-checked against CPython str on every case; a mismatch makes the case inconclusive',
               'precedence-equivalence (DESIGN 2.2)', 'base texts containing ESC are grey']
MIN_EVAL = 500
CASES = {'quick': 600, 'thorough': 8000}
WEIGHTS = {'apply': 12, 'split': 5, 'splitlines': 2, 'partition': 3, 'strip': 3, 'removefix': 2, 'case': 2,
           'assign_str': 2, 'replace': 5, 'expandtabs': 1, 'format_matching': 2, 'query': 0.1, 'find_settings': 0.1,
           'settings_at': 0.1, 'add': 2}

LINE_BREAKS = '\n\r\x0b\x0c\x1c\x1d\x1e\x85\u2028\u2029'
CASE = {'capitalize', 'casefold', 'lower', 'upper', 'swapcase', 'title'}
PIECES = {'split', 'rsplit', 'splitlines', 'partition', 'rpartition', 'strip', 'lstrip', 'rstrip', 'removeprefix',
          'removesuffix'}


def scan_split(t, sep, maxsplit, right):
    """[(offset, length)] of the pieces str.split/rsplit returns"""
    n = len(t)
    if maxsplit is None or maxsplit < 0:
        maxsplit = n + 1
    out = []
    if sep is None:
        if not right:
            i = 0
            splits = 0
            while True:
                while i < n and t[i].isspace():
                    i += 1
                if i >= n:
                    break
                if splits >= maxsplit:
                    out.append((i, n - i))
                    break
                j = i
                while j < n and not t[j].isspace():
                    j += 1
                out.append((i, j - i))
                splits += 1
                i = j
            return out
        i = n
        splits = 0
        while True:
            while i > 0 and t[i - 1].isspace():
                i -= 1
            if i <= 0:
                break
            if splits >= maxsplit:
                out.append((0, i))
                break
            j = i
            while j > 0 and not t[j - 1].isspace():
                j -= 1
            out.append((j, i - j))
            splits += 1
            i = j
        out.reverse()
        return out
    k = len(sep)
    if not right:
        i = 0
        splits = 0
        while splits < maxsplit:
            j = t.find(sep, i)
            if j < 0:
                break
            out.append((i, j - i))
            i = j + k
            splits += 1
        out.append((i, n - i))
        return out
    i = n
    splits = 0
    while splits < maxsplit:
        j = t.rfind(sep, 0, i)
        if j < 0:
            break
        out.append((j + k, i - j - k))
        i = j
        splits += 1
    out.append((0, i))
    out.reverse()
    return out


def scan_lines(t, keepends):
    out = []
    n = len(t)
    i = 0
    while i < n:
        j = i
        while j < n and t[j] not in LINE_BREAKS:
            j += 1
        eol = j
        if j < n:
            if t[j] == '\r' and j + 1 < n and t[j + 1] == '\n':
                j += 2
            else:
                j += 1
        out.append((i, (j if keepends else eol) - i))
        i = j
    return out


def expected_pieces(name, t, a, kw):
    """returns (kind, pieces[(offset,len)], str_result) or None when outside the claim"""

    def arg(i, key, default=None):
        if key in kw:
            return kw[key]
        return a[i] if i < len(a) else default

    n = len(t)
    if name in ('split', 'rsplit'):
        sep = arg(0, 'sep')
        ms = arg(1, 'maxsplit', -1)
        if sep == '' or not (sep is None or isinstance(sep, str)) or not isinstance(ms, int):
            return None
        return scan_split(t, sep, ms, name == 'rsplit'), getattr(t, name)(sep, ms)
    if name == 'splitlines':
        ke = bool(arg(0, 'keepends', False))
        return scan_lines(t, ke), t.splitlines(ke)
    if name in ('partition', 'rpartition'):
        sep = arg(0, 'sep')
        if not isinstance(sep, str) or sep == '':
            return None
        i = t.find(sep) if name == 'partition' else t.rfind(sep)
        if i < 0:
            return [(0, n), (n, 0), (n, 0)], [t, '', '']
        return [(0, i), (i, len(sep)), (i + len(sep), n - i - len(sep))], list(t.partition(sep) if name == 'partition' else t.rpartition(sep))
    if name in ('strip', 'lstrip', 'rstrip'):
        chars = arg(0, 'chars')
        if chars is None:
            chars = STRIP_DEFAULT
        if not isinstance(chars, str):
            return None
        lo, hi = 0, n
        if name != 'rstrip':
            while lo < hi and t[lo] in chars:
                lo += 1
        if name != 'lstrip':
            while hi > lo and t[hi - 1] in chars:
                hi -= 1
        return [(lo, hi - lo)], [getattr(t, name)(chars)]
    if name == 'removeprefix':
        p = arg(0, 'prefix')
        if not isinstance(p, str):
            return None
        k = len(p) if p and t.startswith(p) else 0
        return [(k, n - k)], [t.removeprefix(p)]
    if name == 'removesuffix':
        p = arg(0, 'suffix')
        if not isinstance(p, str):
            return None
        k = len(p) if p and t.endswith(p) else 0
        return [(0, n - k)], [t.removesuffix(p)]
    return None


class PieceContract(Contract):
    prop = PROP
    methods = {('*', m) for m in PIECES | CASE | {'assign_str', 'replace', 'expandtabs'}}

    def pre(self, call):
        L = self.L
        o = O.observe(call.recv)
        args = [a.base_str if is_ansi(L, a) else a for a in call.args]
        kw = {k: (v.base_str if is_ansi(L, v) else v) for k, v in call.kwargs.items() if k != 'inplace'}
        newobs = None
        if call.name == 'replace':
            new = call.arg(1, 'new')
            if is_ansi(L, new):
                newobs = O.observe(new)
        return (o, args, kw, newobs)

    def post(self, call, st, result, exc):
        ctx = self.ctx
        L = self.L
        o, a, kw, newobs = st
        if exc is not None:
            if type(exc).__name__ == 'StepBudgetExceeded':
                # not judged here (C09/C10 do); counted so that the shard stops generating after a few of them
                ctx.extra['n_budget_violations'] = ctx.extra.get('n_budget_violations', 0) + 1
                ctx.grey('call-ran-into-step-budget')
            return
        esc = O.has_esc(o.text)
        name = call.name
        if esc and name not in PIECES:
            ctx.grey('esc-in-text')
            return
        varied = len({tuple(r) for r in o.texts}) >= 2
        det = {'source': o.describe(), 'method': name, 'args': [repr(x)[:60] for x in a]}
        if name in PIECES:
            exp = expected_pieces(name, o.text, a, kw)
            if exp is None:
                ctx.grey('outside-claim:' + name)
                return
            pieces, sres = exp
            if [o.text[i:i + k] for i, k in pieces] != list(sres):
                ctx.grey('scanner-disagrees-with-str')      # inconclusive, never a violation
                return
            res = [result] if is_ansi(L, result) else list(result)
            ctx.ev('pieces')
            ctx.sig('%s:%s' % (name, 'varied' if varied else 'uniform'))
            if len(res) != len(pieces) or not all(is_ansi(L, r) for r in res):
                ctx.violation('piece-count', dict(det, expected=len(pieces), got=len(res)), call, mech='piece-count:' + name)
                return
            proper = False
            for (off, k), r in zip(pieces, res):
                ro = O.observe(r)
                if ro.text != o.text[off:off + k]:
                    ctx.violation('piece-text', dict(det, expected=o.text[off:off + k], got=ro.text), call,
                                  mech='piece-text:' + name)
                    return
                if 0 < k < len(o.text):
                    proper = True
                if esc:
                    continue        # base text with ESC: only the text of the pieces is judged
                d = O.first_diff_equiv(o.texts[off:off + k], ro.texts)
                if d is not None:
                    ctx.violation('piece-settings', dict(det, piece=ro.describe(), true_offset=off, at=d,
                                                         expected=o.texts[off + d]), call, mech='piece-offset:' + name)
                    return
            if varied and proper:
                ctx.nontriv((name, o.key(), repr(a), repr(sorted(kw.items()))))
                if len(ctx.samples) < 10:
                    ctx.sample(dict(det, pieces=pieces))
            return
        v = call.recv if (call.cls == 'AnsiString' and (name == 'assign_str' or call.kwargs.get('inplace') or self._pos_inplace(call))) else result
        if not is_ansi(L, v):
            return
        p = O.observe(v)
        det['result'] = p.describe()
        if name in CASE:
            if len(p.text) != len(o.text):
                ctx.grey('case-map-changes-length')
                return
            ctx.ev('case')
            d = O.first_diff_equiv(o.texts, p.texts)
            if d is not None:
                ctx.violation('case-settings', dict(det, at=d), call, mech='case-settings')
            elif varied and p.text != o.text:
                ctx.nontriv((name, o.key()))
            return
        if name == 'assign_str':
            s = a[0] if a else kw.get('s')
            if not isinstance(s, str):
                return
            ctx.ev('assign_str')
            exp_rows = []
            for i in range(len(s)):
                if i < len(o.text):
                    exp_rows.append(o.texts[i])
                else:
                    exp_rows.append(o.texts[-1] if o.texts else [])
            ctx.sig('assign_str:%s' % ('longer' if len(s) > len(o.text) else 'shorter' if len(s) < len(o.text) else 'same'))
            if p.text != s:
                ctx.violation('assign-text', det, call, mech='assign-text')
                return
            d = O.first_diff_equiv(exp_rows, p.texts)
            if d is not None:
                ctx.violation('assign-settings', dict(det, at=d, expected=exp_rows[d]), call, mech='assign-settings')
            elif varied and len(s) != len(o.text):
                ctx.nontriv((name, o.key(), s))
            return
        # replace / expandtabs
        if name == 'expandtabs':
            n_sp = a[0] if a else kw.get('tabsize', 8)
            if not isinstance(n_sp, int):
                return
            old, new, count = '\t', ' ' * max(0, n_sp), -1
            newobs = None
        else:
            old = a[0] if a else kw.get('old')
            new = a[1] if len(a) > 1 else kw.get('new')
            count = a[2] if len(a) > 2 else kw.get('count', -1)
            if not isinstance(old, str) or not isinstance(new, str) or not isinstance(count, int):
                return
            if newobs is None and '\x1b' in new:
                ctx.grey('esc-in-replacement')      # parsed by design; C10 judges the text, C02 the parse
                return
        t = o.text
        exp_rows = []
        exp_text = []
        judged = []          # per expected character: judged or not
        i = 0
        made = 0
        if old == '':
            # matches before every character and at the end: only the unmatched (original) characters are judged
            pos = 0
            while True:
                if count < 0 or made < count:
                    for k, ch in enumerate(new):
                        exp_text.append(ch)
                        exp_rows.append(newobs.texts[k] if newobs is not None else None)
                        judged.append(newobs is not None)
                    made += 1
                if pos >= len(t):
                    break
                exp_text.append(t[pos])
                exp_rows.append(o.texts[pos])
                judged.append(True)
                pos += 1
        else:
            while i <= len(t):
                j = t.find(old, i) if (count < 0 or made < count) else -1
                if j < 0:
                    for q in range(i, len(t)):
                        exp_text.append(t[q])
                        exp_rows.append(o.texts[q])
                        judged.append(True)
                    break
                for q in range(i, j):
                    exp_text.append(t[q])
                    exp_rows.append(o.texts[q])
                    judged.append(True)
                for k, ch in enumerate(new):
                    exp_text.append(ch)
                    exp_rows.append(newobs.texts[k] if newobs is not None else o.texts[j])
                    judged.append(True)
                made += 1
                i = j + len(old)
        exp_text = ''.join(exp_text)
        if exp_text != t.replace(old, new, count):
            ctx.grey('scanner-disagrees-with-str')
            return
        ctx.ev('replace')
        ctx.sig('%s:%s:%s:matches=%s' % (name, 'ansi-new' if newobs is not None else 'str-new',
                                         'empty-old' if old == '' else 'old', min(made, 3)))
        if p.text != exp_text:
            ctx.violation('replace-text', dict(det, expected=exp_text), call, mech='replace-text')
            return
        for q, (er, jd) in enumerate(zip(exp_rows, judged)):
            if jd and not O.prec_equiv(er, p.texts[q]):
                ctx.violation('replace-settings', dict(det, at=q, expected=er, got=p.texts[q],
                                                       replacement=newobs.describe() if newobs else new), call,
                              mech='replace-settings:%s' % ('ansi-new' if newobs is not None else 'str-new'))
                return
        if made and (varied or (newobs is not None and newobs.styled())):
            ctx.nontriv((name, o.key(), old, new, count, newobs.key() if newobs else None))
            if len(ctx.samples) < 12:
                ctx.sample(det)

    @staticmethod
    def _pos_inplace(call):
        pos = {'capitalize': 0, 'casefold': 0, 'lower': 0, 'upper': 0, 'swapcase': 0, 'title': 0, 'replace': 3,
               'expandtabs': 1}.get(call.name)
        return pos is not None and len(call.args) > pos and bool(call.args[pos])


def contracts(ctx, mon):
    return [PieceContract(ctx)]


def direct_calls(ctx, mon, rng, L, v, pool):
    t = v.base_str
    n = len(t)

    def sub():
        if t and rng.random() < 0.8:
            i = rng.randrange(n)
            return t[i:i + rng.choice([1, 1, 2, 3])]
        return gen_text(rng, 2, allow_empty=False)

    others = [p for p in pool if is_ansi(L, p) and len(p.base_str) <= 12]
    calls = [
        lambda: v.split(sub()), lambda: v.split(sub(), rng.choice([0, 1, 2])), lambda: v.rsplit(sub(), rng.choice([1, 2])),
        lambda: v.split(), lambda: v.split(None, rng.choice([0, 1, 2])), lambda: v.rsplit(None, rng.choice([0, 1, 2])),
        lambda: v.rsplit(sub()), lambda: v.splitlines(), lambda: v.splitlines(True),
        lambda: v.partition(sub()), lambda: v.rpartition(sub()),
        lambda: v.strip(), lambda: v.strip(t[:1] + t[-1:]), lambda: v.lstrip(t[:2]), lambda: v.rstrip(t[-2:]),
        lambda: v.removeprefix(t[:rng.choice([0, 1, 2])]), lambda: v.removesuffix(t[n - rng.choice([1, 2]):] if n else ''),
        lambda: v.upper(), lambda: v.swapcase(), lambda: v.title(), lambda: v.capitalize(), lambda: v.casefold(),
        lambda: v.replace(sub(), rng.choice(['', 'x', 'yz', sub()])), lambda: v.replace(sub(), 'Q', rng.choice([0, 1, 2])),
        lambda: v.replace(sub(), rng.choice(others) if others else 'R'),
        lambda: v.replace(sub(), L.AnsiStr('uv', 'italic', 'bg_red')), lambda: v.replace(sub(), v),
        lambda: (lambda o: v.replace(o, o))(sub()), lambda: (lambda o: v.replace(o, o.upper()))(sub()),
        lambda: v.replace('', rng.choice(['-', L.AnsiString('+', 'bold')]), rng.choice([-1, 1, 2])),
        lambda: v.expandtabs(rng.choice([0, 1, 3])),
    ]
    if isinstance(v, L.AnsiString):
        with mon.quiet():
            c = L.AnsiString(v)
        calls += [
            lambda: c.assign_str(t + gen_text(rng, 3, False)), lambda: c.assign_str(t[:rng.randint(0, n)]),
            lambda: c.replace(sub(), 'ZZ', inplace=True), lambda: c.strip(t[:1], inplace=True),
            lambda: c.upper(inplace=True),
        ]
    for _ in range(10):
        try:
            rng.choice(calls)()
        except Exception:
            pass


def drive(ctx, mon, tier, only_case=None):
    L = ctx.L
    sz = tier_sizes(tier)

    def body(rng, ex, case):
        if case == 0:
            # bounded-exhaustive part: every small-scope value x a fixed battery of substring / editing calls
            m = small_scope_on(ctx, tier)
            nv = 0
            q = L.AnsiString('Q', 'italic')
            for v, _ in small_scope_values(L, m, ctx.shard, ctx.extra.get('nshards', 1),
                                            cls=L.AnsiStr if ctx.shard % 4 == 2 else None):
                nv += 1
                for sep in ('a', 'b', 'bc', 'd', 'ab', 'cd'):
                    v.split(sep)
                    v.rsplit(sep, 1)
                    v.partition(sep)
                    v.rpartition(sep)
                    v.replace(sep, 'X')
                    v.replace(sep, 'XYZ', 1)
                    v.replace(sep, q)
                    v.removeprefix(sep)
                    v.removesuffix(sep)
                    v.strip(sep)
                for f in ('upper', 'swapcase', 'title', 'capitalize', 'splitlines'):
                    getattr(v, f)()
                v.replace('', '-')
                v.replace('', q, 2)
                v.lstrip('ab')
                v.rstrip('cd')
                if isinstance(v, L.AnsiString):
                    for t in ('ab', 'abcdef', '', 'abcd', 'a'):
                        with mon.quiet():
                            c = L.AnsiString(v)
                        c.assign_str(t)
            ctx.extra['n_small_scope_values'] = nv
            return
        if case == 1:
            q2 = L.AnsiString('Q', 'italic')
            seps = ('a', 'b', 'bc', 'c', 'ab') if tier == 'thorough' else ('b', 'bc', 'a')

            def visit(v, p):
                for sep in seps:
                    v.split(sep)
                    v.rsplit(sep, 1)
                    v.partition(sep)
                    v.rpartition(sep)
                    v.replace(sep, 'XY')
                    v.replace(sep, q2)
                    v.removeprefix(sep)
                    v.removesuffix(sep)
                    v.strip(sep)
                v.upper()
                v.title()
                v.replace('', '-', 2)
                if isinstance(v, L.AnsiString):
                    for t in ('ab', 'abcde', ''):
                        with mon.quiet():
                            c = L.AnsiString(v)
                        c.assign_str(t)
            trie_case(ctx, mon, tier, 2, 3, visit=visit, cls=L.AnsiStr if ctx.shard % 4 == 2 else None)
            return
        history(L, rng, ex, rng.randint(2, sz['nops']), sz['maxlen'], 'mixed' if rng.random() < 0.25 else 'wf', WEIGHTS,
                esc=rng.random() < 0.12)
        vals = ansi_values(L, ex)
        if rng.random() < 0.2:
            with mon.quiet():
                vals = vals + esc_seam_values(L, rng, 2)
        for v in vals[-4:]:
            if len(v.base_str) <= 80:
                direct_calls(ctx, mon, rng, L, v, ex.pool)

    run_cases(ctx, mon, CASES[tier], body, only_case=only_case)
