"""C06 - apply_formatting changes exactly the range, with the documented precedence."""
import collections

from .. import obs as O
from .. import sgr_model as M
from .common import (trie_case, TRIE_CODES, Contract, ansi_values, history, run_cases, tier_sizes, safe_obs, norm_range, settings_texts,
                     GROUP_CODES, small_scope_values, small_scope_on, ss_specs)
from ..gen import gen_range, gen_settings

PROP = 'C06'
RULE = ('case = one apply_formatting(settings, start, end, topmost) on a reachable value (in place on AnsiString, '
        'result vs receiver on AnsiStr); bounds aimed at change points, both topmost values, settings that do / '
        'do not conflict with what is there (clear codes under and over apply codes, equal-valued duplicates). '
        'Checked per character: text, outside the range precedence-equivalent, inside multiset = before + given, '
        'display of groups not touched by the given settings unchanged, topmost=False display rule, '
        'topmost=True display rule up to the next beginning setting, no-op for empty range/settings. '
        'Non-trivial: non-empty range on an already styled value; distinct = distinct (value, settings, range, topmost).')
ASSUMPTIONS = ['precedence-equivalence and the SGR group model (DESIGN 2.1/2.2)',
               'the given settings are read as the texts AnsiString(\'x\').apply_formatting(settings) reports (C14 owns spellings)',
               'display clauses are skipped (counted grey) when an ill-formed setting text is involved']
MIN_EVAL = 400
CASES = {'quick': 700, 'thorough': 9600}
WEIGHTS = {'apply': 16, 'remove': 4, 'getitem': 3, 'add': 3, 'pad': 2, 'query': 0.1, 'find_settings': 0.1,
           'settings_at': 0.1, 'format_matching': 2}


def multiset_minus(post, G):
    """post with one instance of each element of G removed (None if impossible)"""
    rest = list(post)
    for g in G:
        for i in range(len(rest) - 1, -1, -1):
            if rest[i] == g:
                del rest[i]
                break
        else:
            return None
    return rest


class ApplyContract(Contract):
    prop = PROP
    methods = {('*', 'apply_formatting')}

    def pre(self, call):
        L = self.L
        o = O.observe(call.recv)
        c = L.AnsiString(call.recv)
        return (o, c)

    def post(self, call, st, result, exc):
        ctx = self.ctx
        L = self.L
        mon = self.ctx.mon
        if exc is not None:
            return
        o, precopy = st
        settings = call.arg(0, 'settings')
        start = call.arg(1, 'start', 0)
        end = call.arg(2, 'end', None)
        topmost = call.arg(3, 'topmost', True)
        if not isinstance(start, int) or not (end is None or isinstance(end, int)):
            return
        v = call.recv if call.cls == 'AnsiString' else result
        p = O.observe(v)
        n = len(o.text)
        a, b = norm_range(start, end, n)
        G = settings_texts(L, mon, settings)
        if G is None:
            return
        det = {'before': o.describe(), 'after': p.describe(), 'settings': G, 'range': [start, end], 'norm': [a, b],
               'topmost': topmost}
        ctx.ev('apply')
        empty = (b <= a) or not G
        if O.has_esc(o.text):
            ctx.grey('esc-in-text')
            return
        if p.text != o.text:
            ctx.violation('text-changed', det, call, mech='apply-text')
            return
        if empty:
            ctx.sig('noop:%s' % ('empty-range' if b <= a else 'empty-settings'))
            same = O.first_diff_exact(o.texts, p.texts) is None
            eq = (L.AnsiString(v) == precopy)
            if not same or not eq:
                ctx.violation('noop-changed', dict(det, eq=eq), call, mech='apply-noop-changed')
            return
        conflict = 'no-conflict'
        gtouch = set()
        for g in G:
            gtouch |= O.groups_touched(g)
        if any(gtouch & O.groups_touched(t) for i in range(a, b) for t in o.texts[i]):
            conflict = 'conflict'
        cps = set(o.change_points())
        ctx.sig('topmost=%s:%s:start-%s:end-%s' % (bool(topmost), conflict,
                                                  'at-cp' if a in cps else 'off-cp', 'at-cp' if b in cps else 'off-cp'))
        if o.styled():
            ctx.nontriv((o.key(), tuple(G), a, b, bool(topmost)))
            if len(ctx.samples) < 10:
                ctx.sample(det)
        # outside the range
        ctx.clause('outside-characters', n - (b - a))
        ctx.clause('inside-characters', b - a)
        for i in list(range(0, a)) + list(range(b, n)):
            if not O.prec_equiv(o.texts[i], p.texts[i]):
                ctx.violation('outside-changed', dict(det, index=i), call, mech='apply-outside-changed')
                return
        wf = all(M.is_wellformed_setting(t) for t in set(G) | o.all_texts())
        if not wf:
            ctx.grey('illformed-setting-display-clauses')
        Gtouch_all = M.ALL <= gtouch or gtouch == M.ALL
        # first later position where another setting object begins
        first_begin = b
        for i in range(a + 1, b):
            prev = set(o.ids(i - 1))
            if any(x not in prev for x in o.ids(i)):
                first_begin = i
                break
        for i in range(a, b):
            rest = multiset_minus(p.texts[i], G)
            if rest is None or collections.Counter(rest) != collections.Counter(o.texts[i]):
                ctx.violation('inside-multiset', dict(det, index=i), call, mech='apply-inside-multiset')
                return
            if not wf:
                continue
            pre_st, _ = M.reduce_settings(o.texts[i])
            post_st, _ = M.reduce_settings(p.texts[i])
            if not Gtouch_all:
                for g in M.GROUPS:
                    if g not in gtouch and pre_st.get(g) != post_st.get(g):
                        ctx.violation('untouched-effect-changed', dict(det, index=i, group=g, was=pre_st.get(g),
                                                                       now=post_st.get(g)), call,
                                      mech='apply-untouched-effect-changed')
                        return
            ctx.clause('topmost-false-display' if not topmost else ('topmost-true-display' if i < first_begin else 'topmost-true-after-next-beginning'))
            if not topmost:
                etouch = set()
                for t in o.texts[i]:
                    etouch |= O.groups_touched(t)
                g_st, _ = M.reduce_settings(G)
                for g in M.GROUPS:
                    if g in etouch:
                        if pre_st.get(g) != post_st.get(g):
                            ctx.violation('topmost-false-existing-effect-changed',
                                          dict(det, index=i, group=g, was=pre_st.get(g), now=post_st.get(g)), call,
                                          mech='apply-not-topmost-existing-changed')
                            return
                    elif post_st.get(g) != g_st.get(g):
                        ctx.violation('topmost-false-new-not-shown',
                                      dict(det, index=i, group=g, expected=g_st.get(g), now=post_st.get(g)), call,
                                      mech='apply-not-topmost-new-not-shown')
                        return
            elif i < first_begin:
                exp_st, _ = M.reduce_settings(list(o.texts[i]) + list(G))
                for g in M.GROUPS:
                    if g in gtouch and exp_st.get(g) != post_st.get(g):
                        ctx.violation('topmost-true-not-on-top',
                                      dict(det, index=i, group=g, expected=exp_st.get(g), now=post_st.get(g)), call,
                                      mech='apply-topmost-not-on-top')
                        return


def contracts(ctx, mon):
    ctx.mon = mon
    return [ApplyContract(ctx)]


def restart_workshop(ctx, mon, rng, L):
    """several applies whose bounds come from a tiny set of indices (so starts/ends coincide with earlier starts,
    ends and restart points), non-topmost and topmost mixed, settings from one or two effect groups; now and then a
    remove_formatting in between (it creates restart points at its range end as well)"""
    groups = rng.sample(sorted(GROUP_CODES), rng.choice([1, 1, 2]))
    pool = []
    for g in groups:
        ap, cl = GROUP_CODES[g]
        pool += ap + [cl]
    n = rng.choice([8, 10, 12])
    idx = sorted(rng.sample(range(0, n + 1), rng.choice([2, 3, 3, 4])))
    with mon.quiet():
        s = L.AnsiString('abcdefghijkl'[:n])
        if rng.random() < 0.8:
            s.apply_formatting(rng.choice(pool), 0, None)
        if rng.random() < 0.2:
            s = L.AnsiStr(s)
    ctx.sig('restart-workshop')
    for _ in range(rng.randint(3, 7)):
        a, b = rng.choice(idx), rng.choice(idx + [None, n])
        if b is not None and a > b:
            a, b = b, a
        try:
            r = rng.random()
            if r < 0.12 and isinstance(s, L.AnsiString):
                with mon.quiet():
                    s.remove_formatting(rng.choice(pool), a, b)
            elif isinstance(s, L.AnsiString):
                s.apply_formatting(rng.choice(pool), a, b, topmost=rng.random() < 0.45)
            else:
                s = s.apply_formatting(rng.choice(pool), a, b, topmost=rng.random() < 0.45)
        except Exception:
            pass


def drive(ctx, mon, tier, only_case=None):
    L = ctx.L
    sz = tier_sizes(tier)

    def body(rng, ex, case):
        if case == 0:
            # bounded-exhaustive part: every small-scope value x every further apply_formatting of the same scope
            m = small_scope_on(ctx, tier)
            specs = ss_specs()
            nv = 0
            for v, _ in small_scope_values(L, m, ctx.shard, ctx.extra.get('nshards', 1)):
                nv += 1
                for c, a, b, top in specs:
                    with mon.quiet():
                        t = L.AnsiString(v)
                    t.apply_formatting(c, a, b, topmost=top)
                if nv <= 40:
                    # the integer 0 (RESET) given directly is a setting like any other
                    for a, b in ((0, 4), (1, 3), (2, None)):
                        with mon.quiet():
                            t = L.AnsiString(v) if nv % 3 else L.AnsiStr(v)
                        t.apply_formatting(0, a, b, topmost=bool(nv % 2))
            ctx.extra['n_small_scope_values'] = nv
            return
        if case == 1:
            # every history of apply/remove operations up to the tier's depth: each apply is judged where it happens
            # ... and on values *derived* from the nodes (slices, re-joined halves, a copy of the other class), where
            # whatever the library remembers about a value besides its markers has to have been carried along
            def derived(v, p):
                if len(p) >= 3 and tier == 'quick':
                    # quick tier: of the three-operation histories only those that end by taking away what an earlier
                    # operation had laid underneath (what remains is a setting stopped and restarted at one index)
                    last = p[-1]
                    if last[0] != 'remove' or not any(o[0] == 'apply' and o[4] is False and last[1] in (None, o[1])
                                                      for o in p[:-1]):
                        return
                with mon.quiet():
                    ds = [v[0:3], v[:1] + v[1:], L.AnsiString(L.AnsiStr(v)[0:3])]
                    if tier != 'quick' or len(p) < 3:
                        ds += [v[1:], L.AnsiString.join(v[:2], v[2:]), v.strip('x')]
                for i, d in enumerate(ds):
                    c = TRIE_CODES[(len(p) + i) % 3]
                    d.apply_formatting(c, 0, None)
                    with mon.quiet():
                        d2 = ds[i][0:len(ds[i].base_str)]
                    d2.apply_formatting(TRIE_CODES[(len(p) + i + 1) % 3], 0, 2, topmost=False)
            trie_case(ctx, mon, tier, 3, 4, judged_walk=True, visit=derived, visit_depth=3)
            return
        profile = rng.choice(['wf', 'wf', 'mixed', 'hostile'])
        history(L, rng, ex, rng.randint(1, sz['nops']), sz['maxlen'], profile, WEIGHTS)
        for _ in range(3):
            restart_workshop(ctx, mon, rng, L)
        for v in ansi_values(L, ex)[-6:]:
            o = safe_obs(mon, v)
            if o is None:
                continue
            for _ in range(3):
                a, b = gen_range(rng, len(o.text), o.change_points())
                s = gen_settings(rng, profile)
                try:
                    with mon.quiet():
                        tgt = L.AnsiString(v) if rng.random() < 0.7 else L.AnsiStr(v)
                    tgt.apply_formatting(ex.dec(s), a if a is not None else 0, b, topmost=rng.random() < 0.55)
                except Exception:
                    pass

    run_cases(ctx, mon, CASES[tier], body, only_case=only_case)
