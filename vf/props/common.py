"""Helpers shared by the property monitors."""
import os
import random
import re
import signal
import time

from .. import obs as O
from .. import sgr_model as M
from ..gen import Exec, HistoryGen
from ..monitor import Contract, Call, StepBudgetExceeded, CaseTimeout  # noqa: F401

FLAG_COMBOS = [(o, rs, re_) for o in (True, False) for rs in (False, True) for re_ in (True, False)]


def is_ansi(L, v):
    return isinstance(v, (L.AnsiString, L.AnsiStr))


def is_plain_str(L, v):
    return isinstance(v, str) and not isinstance(v, L.AnsiStr)


def norm_range(start, end, n):
    """slice-normalised [a, b) for Python slice rules; b >= a is not guaranteed by
    slice.indices, so an empty range is returned as (a, a)."""
    a, b, _ = slice(start, end).indices(n)
    if b < a:
        b = a
    return a, b


def settings_texts(L, mon, settings):
    """The given settings as the list of texts the library turns them into, obtained
    by observing AnsiString('x', settings) (the spelling table is C14's subject).
    Returns None if the library rejects them."""
    with mon.quiet():
        try:
            if isinstance(settings, tuple):
                settings = list(settings)
            if isinstance(settings, int) and not isinstance(settings, bool):
                # a bare integer code is read through the constructor (it arrives there inside the argument tuple),
                # so that the judged call's own handling of a falsy 0 is not what defines the expectation
                probe = L.AnsiString('x', settings)
            else:
                probe = L.AnsiString('x')
                probe.apply_formatting(settings)
            return [str(s) for s in probe.ansi_settings_at(0)]
        except Exception:
            return None


def render_failures(o, out, reset_start, reset_end):
    """Compare one rendering with the reference terminal.

    Returns (list of (clause, detail), grey_reason)."""
    if O.has_esc(o.text):
        return [], 'esc-in-text'
    sty, grey = O.styles(o)
    if grey:
        return [], 'illformed-setting:' + grey
    fails = []
    e = M.emulate(out, {})
    chars = ''.join(c for c, _ in e.cells)
    if e.malformed:
        fails.append(('malformed-output', e.malformed))
    if chars != o.text:
        fails.append(('text', {'expected': o.text, 'displayed': chars}))
    else:
        for i, (c, st) in enumerate(e.cells):
            if st != sty[i]:
                fails.append(('style', {'index': i, 'expected': dict(sty[i]), 'displayed': dict(st)}))
                break
    if reset_start:
        if not e.starts_with_reset:
            fails.append(('reset_start-missing', {'out': out[:80]}))
        e2 = M.emulate(out, M.DIRTY)
        chars2 = ''.join(c for c, _ in e2.cells)
        if chars2 == o.text:
            for i, (c, st) in enumerate(e2.cells):
                if st != sty[i]:
                    fails.append(('reset_start-prior-state-leaks',
                                  {'index': i, 'expected': dict(sty[i]), 'displayed': dict(st)}))
                    break
        if reset_end and e2.final:
            fails.append(('reset_end-nondefault-after-dirty', {'final': dict(e2.final)}))
    if reset_end and e.final:
        fails.append(('reset_end-nondefault', {'final': dict(e.final)}))
    return fails, None


def display_cells(out, initial=None):
    e = M.emulate(out, initial or {})
    return e


def transitions(sty):
    """set of (group, kind) over adjacent differing states, kind in set/changed/cleared"""
    out = set()
    prev = {}
    for st in sty:
        d = dict(st)
        if d != prev:
            for g in set(d) | set(prev):
                if g in d and g not in prev:
                    out.add((g, 'set'))
                elif g in prev and g not in d:
                    out.add((g, 'cleared'))
                elif d[g] != prev[g]:
                    out.add((g, 'changed'))
        prev = d
    return out


CASE_ALARM_S = 90


def _on_alarm(signum, frame):
    raise CaseTimeout()


signal.signal(signal.SIGALRM, _on_alarm)


class Budget:
    """wall-clock cap for a shard's workload: only bounds cost; hitting it is
    reported in evidence (time_capped) and never decides a verdict."""

    def __init__(self, seconds):
        self.t0 = time.time()
        self.seconds = seconds

    def left(self):
        return self.seconds - (time.time() - self.t0)

    def over(self):
        return self.left() <= 0


def case_rng(ctx, case):
    return random.Random('%s/%s/%s/%s/%s' % (ctx.seed, ctx.prop, ctx.tier, ctx.shard, case))


def run_cases(ctx, mon, ncases, body, wall=None, only_case=None):
    """Run `body(rng, ex, case_no)` for case numbers assigned to this shard."""
    L = ctx.L
    # soft wall-clock cap well inside the runner's watchdog: a shard that is slowed down (e.g. by calls that run
    # into the step budget) stops generating and still reports what it observed; never a verdict by itself
    if wall is None:
        wall = 360 if ctx.tier == 'quick' else 3600
    bud = Budget(wall) if wall else None
    cases = range(ncases) if only_case is None else [only_case]
    if only_case is not None and os.environ.get('VERIF_REPLAY_PREFIX'):
        # replay of a violation that depends on state left in the library by earlier cases of the shard
        cases = range(only_case + 1)
    # the alarm is a *no progress* watchdog: every returning outermost call and every oracle section re-arms it
    # checks that judge termination by the deterministic step budget (C09-C11) do not need the wall clock for that:
    # their alarm is only a last resort and long enough not to fire on a loaded machine
    alarm_s = 900 if getattr(mon, 'budget', None) is not None and mon.budget_judged else CASE_ALARM_S
    mon.heartbeat = lambda: signal.alarm(alarm_s)
    O.HEARTBEAT = mon.heartbeat
    for case in cases:
        if bud is not None and bud.over():
            ctx.extra['time_capped_at_case'] = case
            break
        if ctx.extra.get('n_budget_violations', 0) >= 3:
            ctx.extra['stopped_after_budget_violations'] = True
            break
        rng = case_rng(ctx, case)
        ctx.case = {'seed': ctx.seed, 'tier': ctx.tier, 'shard': ctx.shard, 'case': case}
        ctx.history = []
        ex = Exec(L, ctx, mon)
        ctx.ex = ex
        ctx.cases += 1
        if getattr(mon, 'budget', None) is not None:
            mon.budget.start()
        try:
            signal.alarm(alarm_s)
            try:
                body(rng, ex, case)
            finally:
                signal.alarm(0)
        except CaseTimeout:
            # wall clock: inconclusive for this case, never a verdict; a few of them end the shard's workload
            ctx.aborted['case-wall-clock-alarm'] += 1
            ctx.extra['n_case_alarms'] = ctx.extra.get('n_case_alarms', 0) + 1
            ctx.extra.setdefault('case_alarms', []).append({'shard': ctx.shard, 'case': case,
                                                            'last_ops': [o.get('m') for o in (ctx.history or [])[-6:]]})
            mon.depth = 0
            if ctx.extra['n_case_alarms'] >= 3:
                ctx.extra['stopped_after_case_alarms'] = True
                break
        except StepBudgetExceeded:
            # the contract has already judged the call; the rest of this case is abandoned
            ctx.aborted['step-budget-exceeded'] += 1
            mon.depth = 0
        except Exception:
            ctx.oracle_error('driver case %s' % case)
    mon.heartbeat = None
    O.HEARTBEAT = None
    signal.alarm(0)
    ctx.history = None
    ctx.case = None
    ctx.ex = None


def history(L, rng, ex, nops, maxlen, profile='wf', weights=None, esc=False):
    # 2% of the histories work on long texts (up to 240 characters) and 2% pile many settings onto one value, so
    # that size-dependent paths (thresholds, fast paths) are not systematically outside the workload
    r = rng.random()
    if r < 0.02:
        maxlen = 240
    hg = HistoryGen(L, rng, ex, maxlen=maxlen, profile=profile, weights=weights, esc=esc)
    if r < 0.02:
        hg.LEN_CAP = 600
    hg.run_history(nops)
    if 0.02 <= r < 0.04:
        ri = hg.pick_val()
        if ri is not None:
            for _ in range(rng.randint(8, 16)):
                op = hg.mk_op('apply')
                op['r'] = ri
                ex.run(op)
    return hg


def ansi_values(L, ex):
    return [v for v in ex.pool if is_ansi(L, v)]


def tier_sizes(tier):
    if tier == 'thorough':
        return {'maxlen': 40, 'nops': 12}
    return {'maxlen': 12, 'nops': 8}


def safe_obs(mon, v):
    """observe without being judged; None if the value is damaged (C09 judges that)"""
    with mon.quiet():
        try:
            return O.observe(v)
        except Exception:
            return None


def as_text(L, v):
    if is_ansi(L, v):
        return v.base_str
    return v


_STRICT_SGR = re.compile('\x1b\\[[0-9;]*m')


def strip_sgr_strict(s):
    return _STRICT_SGR.sub('', s)


# --------------------------------------------------------------------------
# systematic workloads shared by several checks
# --------------------------------------------------------------------------
GROUP_CODES = {
    # group: (apply codes, clear code)
    'boldness': (['1', '2'], '22'), 'italics': (['3'], '23'), 'underline': (['4', '21'], '24'),
    'blinking': (['5', '6'], '25'), 'swap': (['7'], '27'), 'visibility': (['8'], '28'), 'crossed_out': (['9'], '29'),
    'font': (['11', '20'], '10'), 'spacing': (['26'], '50'), 'boxing': (['51', '52'], '54'), 'overline': (['53'], '55'),
    'fg': (['31', '38;5;214', '38;2;1;2;3', '97'], '39'), 'bg': (['41', '48;5;9', '104'], '49'),
    'ul_color': (['58;5;9', '58;2;1;2;3'], '59'),
}


def transition_values(L, rng, shard=0, nshards=1, per_group=40):
    """values whose adjacent characters bridge every kind of style transition of every effect group
    (set / changed / cleared / clear-code-as-setting), with and without a setting of another group
    running underneath or ending at the same index.  Yields AnsiString objects."""
    groups = sorted(GROUP_CODES)
    k = 0
    for g in groups:
        ap, cl = GROUP_CODES[g]
        states = [None] + ap[:2] + [cl]
        others = [x for x in groups if x != g]
        for a in states:
            for b in states:
                for c in states:
                    if a is None and b is None and c is None:
                        continue
                    k += 1
                    if k % nshards != shard:
                        continue
                    for under, unparsable in ((None, False), ('across', False), ('ends-in-middle', False),
                                              ('across', True), (None, True)):
                        s = L.AnsiString('abcdef')
                        if unparsable:
                            # an unknown verbatim code makes the value non-optimizable: the renderer takes its
                            # reset-and-re-emit path, and simplify() starts from that rendering
                            s.apply_formatting('[99', 0, 6)
                        if under:
                            og = rng.choice(others)
                            oc = rng.choice(GROUP_CODES[og][0])
                            if under == 'across':
                                s.apply_formatting('[' + oc, 0, 6)
                            else:
                                s.apply_formatting('[' + oc, 1, 4)
                        for (st, en), code in zip(((0, 2), (2, 4), (4, 6)), (a, b, c)):
                            if code is not None:
                                # as a parsed code (int string) so that the value stays optimizable
                                s.apply_formatting(code, st, en)
                        yield s


def esc_seam_values(L, rng, n=3):
    """values (both classes, styled and unstyled) whose *base text* holds a complete literal escape sequence.
    The constructor parses such sequences out, so they can only arise at a concatenation seam, through assign_str
    or through a case conversion; operations that rebuild a value from its text must not parse them again."""
    out = []
    for _ in range(n):
        seq = rng.choice(['\x1b[1m', '\x1b[31m', '\x1b[m', '\x1b[4;34m', '\x1b[38;5;9m'])
        k = rng.randint(1, len(seq) - 1)
        head = rng.choice(['ab', 'a b', '', 'x\ty', 'Ab-']) + seq[:k]
        tail = seq[k:] + rng.choice(['cd', ' c d', 'Z', '\tq', ''])
        how = rng.randrange(4)
        try:
            if how == 0:
                v = L.AnsiString(head) + tail
            elif how == 1:
                v = L.AnsiString('zz')
                v.assign_str(head + tail)
            elif how == 2:
                v = L.AnsiStr(head) + tail
            else:
                v = L.AnsiString(head.upper() if False else head)
                v += L.AnsiString(tail)
            if rng.random() < 0.4 and isinstance(v, L.AnsiString):
                v.apply_formatting(rng.choice(['red', 'bold', 'bg_blue']), rng.randint(0, 2), rng.choice([None, 3, 5]))
            if rng.random() < 0.35:
                v = L.AnsiStr(v) if isinstance(v, L.AnsiString) else L.AnsiString(v)
            out.append(v)
        except Exception:
            pass
    return out


# --------------------------------------------------------------------------
# bounded-exhaustive ("small scope") enumeration
# --------------------------------------------------------------------------
SS_TEXT = 'abcd'
SS_CODES = ['31', '34', '1']          # two conflicting foreground colours and one independent effect


def ss_ranges(n=len(SS_TEXT)):
    return [(a, b) for a in range(n) for b in range(a + 1, n + 1)]


def ss_specs():
    return [(c, a, b, top) for c in SS_CODES for (a, b) in ss_ranges() for top in (True, False)]


def small_scope_values(L, max_applies=2, shard=0, nshards=1, cls=None):
    """EVERY value obtainable from AnsiString('abcd') by up to `max_applies` apply_formatting calls with a setting
    from {red, blue, bold}, any non-empty range and either topmost value (60 one-apply, 3600 two-apply values),
    dealt round-robin over the shards.  Yields (value, description)."""
    specs = ss_specs()
    k = 0
    for s1 in specs:
        seqs = [[s1]]
        if max_applies >= 2:
            seqs += [[s1, s2] for s2 in specs]
        for seq in seqs:
            k += 1
            if k % nshards != shard:
                continue
            v = L.AnsiString(SS_TEXT)
            for c, a, b, top in seq:
                v.apply_formatting(c, a, b, topmost=top)
            if cls is not None and cls is not L.AnsiString:
                v = cls(v)
            yield v, seq


# Every history of up to `depth` formatting operations on a three-character text: the operation alphabet is
# apply_formatting of red / blue / bold over each of the 6 non-empty ranges with either topmost value (36) and
# remove_formatting of red / blue / bold / everything over each range (24).  The tree is walked depth-first on
# copies, so every node's last operation is an outermost call judged by the contracts that are installed.
TRIE_TEXT = 'abc'
TRIE_CODES = ['31', '34', '1']


def trie_ops():
    n = len(TRIE_TEXT)
    rs = [(a, b) for a in range(n) for b in range(a + 1, n + 1)]
    ops = [('apply', c, a, b, top) for c in TRIE_CODES for (a, b) in rs for top in (True, False)]
    ops += [('remove', c, a, b, None) for c in TRIE_CODES + [None] for (a, b) in rs]
    return ops


def trie_walk(L, depth, shard=0, nshards=1, visit=None, cls=None, mon=None, visit_depth=None):
    """visit(value, path) at every node below the root; the first operation is dealt round-robin over the shards (a
    partition of the whole tree).  With `mon` given the walk's own calls are made inside mon.quiet() (only what
    `visit` does is judged); without it every operation of the walk is an outermost, judged call.  The value handed
    to `visit` is a copy.  Returns the number of nodes visited."""
    ops = trie_ops()
    count = [0]

    def step(v, op):
        w = L.AnsiString(v)
        kind, c, a, b, top = op
        if kind == 'apply':
            w.apply_formatting(c, a, b, topmost=top)
        else:
            w.remove_formatting(c, a, b)
        return w

    def rec(v, path, d):
        for i, op in enumerate(ops):
            if d == 0 and i % nshards != shard:
                continue
            if mon is not None:
                with mon.quiet():
                    w = step(v, op)
                    x = (cls or L.AnsiString)(w) if visit is not None else None
            else:
                w = step(v, op)
                x = (cls or L.AnsiString)(w) if visit is not None else None
            count[0] += 1
            p2 = path + [op]
            if visit is not None and (visit_depth is None or d < visit_depth):
                visit(x, p2)
            if d + 1 < depth:
                rec(w, p2, d + 1)

    if mon is not None:
        with mon.quiet():
            root = L.AnsiString(TRIE_TEXT)
    else:
        root = L.AnsiString(TRIE_TEXT)
    rec(root, [], 0)
    return count[0]


def trie_case(ctx, mon, tier, qdepth, tdepth, visit=None, judged_walk=False, cls=None, visit_depth=None):
    """run the walk for this tier and describe it in evidence"""
    depth = tdepth if tier == 'thorough' else qdepth
    n = trie_walk(ctx.L, depth, ctx.shard, ctx.extra.get('nshards', 1), visit=visit, cls=cls,
                  mon=None if judged_walk else mon, visit_depth=visit_depth)
    ctx.extra['op_tree'] = ('every history of up to %d operations on %r out of %d (apply_formatting of %s x 6 ranges x '
                            'topmost T/F, remove_formatting of each / all x 6 ranges), first operation dealt over the '
                            'shards' % (depth, TRIE_TEXT, len(trie_ops()), TRIE_CODES))
    ctx.extra['n_op_tree_nodes'] = ctx.extra.get('n_op_tree_nodes', 0) + n
    return n


def small_scope_on(ctx, tier):
    """(max_applies) for this tier; records the scope in evidence"""
    m = 2 if tier == 'thorough' else 1
    ctx.extra['small_scope'] = ('exhaustive over text %r x up to %d apply_formatting calls with codes %s x all %d '
                                'non-empty ranges x topmost in {True, False}' % (SS_TEXT, m, SS_CODES, len(ss_ranges())))
    return m


def stack_values(L, rng, shard=0, nshards=1):
    """stacks of settings of ONE effect group whose values repeat (X,Y,X / X,X,Y / X,clear,X ...) over the whole
    text, with 0..4 settings of other groups ending (or starting) together at an index in the middle - the
    situations in which the renderer chooses between its reset-and-re-emit form and the per-effect difference."""
    groups = sorted(GROUP_CODES)
    k = 0
    for g in groups:
        ap, cl = GROUP_CODES[g]
        x = ap[0]
        y = ap[1] if len(ap) > 1 else cl
        others = [o for o in groups if o != g]
        for pat in ([x, y, x], [x, x, y], [y, x, x, y], [x, cl, x], [x, y], [cl, x, cl]):
            for j in range(0, 5):
                for where in ('end-together', 'start-together'):
                    k += 1
                    if k % nshards != shard:
                        continue
                    s = L.AnsiString('abcdef')
                    for c in pat:
                        s.apply_formatting(c, 0, 6)
                    for og in rng.sample(others, j):
                        oc = GROUP_CODES[og][0][0]
                        if where == 'end-together':
                            s.apply_formatting(oc, 0, 3)
                        else:
                            s.apply_formatting(oc, 3, 6)
                    yield s
