"""Boundary monitor layer: wraps every public method of AnsiString / AnsiStr so
that each *outermost* call (made by a workload or by the repository's tests)
is observed by the property contracts; nested calls are only counted.

Monitors record and return - they never raise into the library - so the
execution observed is the unperturbed one.  The only exception is the step
budget (bounded-progress monitor), whose whole point is to stop a call.
"""
import collections
import json
import os
import sys
import traceback
import types

from .obs import ObsError

DUNDERS = ('__init__', '__new__', '__getitem__', '__add__', '__iadd__', '__str__',
           '__repr__', '__format__', '__iter__', '__eq__', '__contains__', '__len__')


class CaseTimeout(BaseException):
    """raised by the runner's SIGALRM handler (vf/props/common.py) when nothing has made progress for the alarm
    period of wall clock.  Never a verdict: the wrappers pass it through unjudged, the case is counted as abandoned
    and the run comes out inconclusive."""


class StepBudgetExceeded(BaseException):
    """Raised by the step-budget monitor inside the library call (BaseException so
    that no `except Exception` in the library can swallow it)."""


class Call:
    __slots__ = ('cls', 'name', 'recv', 'args', 'kwargs')

    def __init__(self, cls, name, recv, args, kwargs):
        self.cls = cls
        self.name = name
        self.recv = recv
        self.args = args
        self.kwargs = kwargs

    def arg(self, pos, kw, default=None):
        if kw in self.kwargs:
            return self.kwargs[kw]
        if pos < len(self.args):
            return self.args[pos]
        return default

    def describe(self):
        return {'cls': self.cls, 'method': self.name,
                'args': [short(a) for a in self.args],
                'kwargs': {k: short(v) for k, v in self.kwargs.items()}}


def short(v, lim=160, depth=0):
    if depth > 4:
        return '<nested deeper>'
    try:
        if hasattr(v, 'base_str') and hasattr(v, 'ansi_settings_at'):
            try:
                rows = [';'.join(str(s) for s in v.ansi_settings_at(i)) for i in range(len(v.base_str))]
            except Exception as e:  # damaged value
                rows = 'ERR %r' % (e,)
            return {'type': type(v).__name__, 'text': v.base_str, 'settings': rows}
        if isinstance(v, (list, tuple)):
            return [short(x, lim, depth + 1) for x in v[:12]]
        if isinstance(v, (str, int, float, bool)) or v is None:
            return v if not isinstance(v, str) or len(v) <= lim else v[:lim] + '...'
        if isinstance(v, slice):
            return 'slice(%r,%r,%r)' % (v.start, v.stop, v.step)
        r = repr(v)
        return r if len(r) <= lim else r[:lim] + '...'
    except Exception as e:
        return '<unprintable %s: %r>' % (type(v).__name__, e)


class Contract:
    """Base class.  `methods` = {(clsname|'*', methodname|'*')} it attaches to."""
    prop = None
    methods = ()

    def __init__(self, ctx):
        self.ctx = ctx
        self.L = ctx.L

    def wants(self, cls, name):
        m = self.methods
        return (cls, name) in m or ('*', name) in m or ('*', '*') in m or (cls, '*') in m

    def pre(self, call):
        return None

    def post(self, call, state, result, exc):
        pass


class Ctx:
    """Per-process record of what the monitors observed."""
    MAX_VIOL = 60
    MAX_SAMPLES = 12

    def __init__(self, L, prop, tier='quick', seed=0, shard=0):
        self.L = L
        self.prop = prop
        self.tier = tier
        self.seed = seed
        self.shard = shard
        self.clauses = collections.Counter()      # clause -> evaluations
        self.evaluations = 0
        self.nontrivial = set()
        self.sigs = collections.Counter()
        self.greys = collections.Counter()
        self.samples = []
        self.violations = []
        self.n_violations = 0
        self.oracle_errors = []
        self.nested = collections.Counter()
        self.outer = collections.Counter()
        self.aborted = collections.Counter()      # histories aborted by an unexpected exception, by type
        self.history = None                       # transcript of the running case
        self.case = None
        self.cases = 0
        self.max_steps = 0
        self.max_steps_call = None
        self.extra = {}
        self.viol_keys = collections.Counter()
        self.ex = None                            # the running case's op executor (transcript of direct calls)

    # --- recording -------------------------------------------------------
    def ev(self, clause, n=1):
        self.clauses[clause] += n
        self.evaluations += n

    def clause(self, name, n=1):
        """per-clause judgement count (does not add to `evaluations`, which counts judged calls/cases)"""
        self.clauses['clause:' + name] += n

    def nontriv(self, key):
        if len(self.nontrivial) < 2000000:
            self.nontrivial.add(hash(key))

    def sig(self, s):
        self.sigs[s] += 1

    def grey(self, reason):
        self.greys[reason] += 1

    def sample(self, obj, force=False):
        if len(self.samples) < self.MAX_SAMPLES or force:
            self.samples.append(obj)

    def violation(self, clause, detail, call=None, mech=None):
        """clause: which contract clause failed; mech: mechanism key used to match
        known findings (never a hash or a random value)."""
        self.n_violations += 1
        k = (self.prop, clause, mech)
        self.viol_keys[k] += 1
        if len(self.violations) < self.MAX_VIOL and self.viol_keys[k] <= 5:
            rec = {'property': self.prop, 'clause': clause, 'mechanism': mech,
                   'detail': detail,
                   'call': call.describe() if isinstance(call, Call) else call,
                   'case': self.case,
                   'history': list(self.history) if self.history is not None else None}
            self.violations.append(rec)

    def oracle_error(self, where):
        if len(self.oracle_errors) < 20:
            self.oracle_errors.append({'where': where, 'case': self.case,
                                       'trace': traceback.format_exc()[-3000:]})
        else:
            self.oracle_errors.append(None)

    def dump(self):
        return {
            'prop': self.prop, 'shard': self.shard, 'seed': self.seed, 'tier': self.tier,
            'evaluations': self.evaluations,
            'clauses': dict(self.clauses),
            'nontrivial': sorted(self.nontrivial),
            'sigs': {json.dumps(k) if not isinstance(k, str) else k: v for k, v in self.sigs.items()},
            'greys': dict(self.greys),
            'samples': self.samples,
            'violations': self.violations,
            'n_violations': self.n_violations,
            'oracle_errors': [e for e in self.oracle_errors if e][:5],
            'n_oracle_errors': len(self.oracle_errors),
            'nested': dict(self.nested), 'outer': dict(self.outer),
            'aborted': dict(self.aborted),
            'cases': self.cases,
            'max_steps': self.max_steps, 'max_steps_call': self.max_steps_call,
            'extra': self.extra,
        }


class StepBudget:
    """Counts executed library lines per outermost call (sys.monitoring LINE
    events restricted to the code objects of $VERIF_REPO/src/ansi_string)."""
    TOOL = 4

    def __init__(self, L, budget):
        self.L = L
        self.budget = budget
        self.count = 0
        self.armed = False
        self.installed = False
        self.line_hits = None

    def _codes(self):
        seen = set()
        out = []

        def walk(co):
            if co in seen:
                return
            seen.add(co)
            out.append(co)
            for c in co.co_consts:
                if isinstance(c, types.CodeType):
                    walk(c)

        libdir = os.path.realpath(os.path.dirname(self.L.core.__file__))
        for mod in (self.L.core, self.L.parsing, self.L.fmt, self.L.param):
            for obj in vars(mod).values():
                self._walk_obj(obj, walk, libdir, set())
        return out

    def _walk_obj(self, obj, walk, libdir, seen):
        if id(obj) in seen:
            return
        seen.add(id(obj))
        fn = getattr(obj, '__wrapped_fn__', None)
        if fn is not None:
            self._walk_obj(fn, walk, libdir, seen)
        if isinstance(obj, (staticmethod, classmethod)):
            obj = obj.__func__
        if isinstance(obj, property):
            for f in (obj.fget, obj.fset, obj.fdel):
                if f is not None:
                    self._walk_obj(f, walk, libdir, seen)
            return
        if isinstance(obj, types.FunctionType):
            if os.path.realpath(obj.__code__.co_filename).startswith(libdir):
                walk(obj.__code__)
            return
        if isinstance(obj, type) and getattr(obj, '__module__', '').startswith('ansi_string'):
            for v in vars(obj).values():
                self._walk_obj(v, walk, libdir, seen)

    def install(self):
        mon = sys.monitoring
        mon.use_tool_id(self.TOOL, 'vf-step-budget')
        mon.register_callback(self.TOOL, mon.events.LINE, self._line)
        n = 0
        for co in self._codes():
            mon.set_local_events(self.TOOL, co, mon.events.LINE)
            n += 1
        self.installed = True
        return n

    def _line(self, code, line):
        # counts library lines since the last reset (entry of an outermost call, entry of a quiet oracle section,
        # start of a case); armed all the time so that a hang anywhere - also inside a probe - ends the case
        self.count += 1
        if self.count > self.budget:
            self.count = 0
            raise StepBudgetExceeded('more than %d library lines in one call' % self.budget)

    def start(self):
        self.count = 0

    def stop(self):
        n = self.count
        self.count = 0
        return n


class LineReach(StepBudget):
    """Which library lines the workload of a check executed at least once (sys.monitoring LINE events on the
    library's code objects under a tool id of its own; every location disables itself after its first event, so
    the cost is one callback per distinct line).  Evidence of reach only - never a verdict."""
    TOOL = 1    # sys.monitoring.COVERAGE_ID

    def __init__(self, L):
        StepBudget.__init__(self, L, 0)
        self.hit = set()
        self.executable = set()

    def install(self):
        mon = sys.monitoring
        try:
            mon.use_tool_id(self.TOOL, 'vf-line-reach')
        except ValueError:
            return 0
        mon.register_callback(self.TOOL, mon.events.LINE, self._line)
        n = 0
        for co in self._codes():
            f = os.path.basename(co.co_filename)
            first = co.co_firstlineno
            for _, _, ln in co.co_lines():
                # (the `def` line itself belongs to the enclosing scope, executed at import)
                if ln is not None and ln != first:
                    self.executable.add((f, ln))
            mon.set_local_events(self.TOOL, co, mon.events.LINE)
            n += 1
        self.installed = True
        return n

    def _line(self, code, line):
        self.hit.add((os.path.basename(code.co_filename), line))
        return sys.monitoring.DISABLE

    def dump(self):
        files = {}
        for f, ln in self.executable:
            files.setdefault(f, {'executable': [], 'hit': []})['executable'].append(ln)
        for f, ln in self.hit:
            if (f, ln) in self.executable:
                files[f]['hit'].append(ln)
        for d in files.values():
            d['executable'].sort()
            d['hit'].sort()
        return files


class Monitor:
    def __init__(self, ctx, contracts=(), step_budget=None, budget_judged=True):
        self.budget_judged = budget_judged
        self.heartbeat = None       # set by run_cases: re-arms the wall-clock alarm whenever an outermost call returns
        self.ctx = ctx
        self.L = ctx.L
        self.depth = 0
        self.active = True
        self.contracts = list(contracts)
        self._cache = {}
        self.budget = step_budget
        self.installed = False

    def contracts_for(self, cls, name):
        k = (cls, name)
        r = self._cache.get(k)
        if r is None:
            r = [c for c in self.contracts if c.wants(cls, name)]
            self._cache[k] = r
        return r

    # ------------------------------------------------------------------
    def install(self):
        if self.installed:
            return
        for cls in (self.L.AnsiString, self.L.AnsiStr):
            for name, attr in list(vars(cls).items()):
                if name.startswith('_') and name not in DUNDERS:
                    continue
                if name == '__new__':
                    f = attr.__func__ if isinstance(attr, staticmethod) else attr
                    w = self._wrap(cls.__name__, name, f, static=False, new=True)
                    setattr(cls, name, staticmethod(w))
                elif isinstance(attr, staticmethod):
                    w = self._wrap(cls.__name__, name, attr.__func__, static=True)
                    setattr(cls, name, staticmethod(w))
                elif isinstance(attr, types.FunctionType):
                    setattr(cls, name, self._wrap(cls.__name__, name, attr, static=False))
        self.installed = True
        if self.budget is not None and not self.budget.installed:
            self.budget.install()

    def _wrap(self, clsname, name, fn, static, new=False):
        mon = self
        ctx = self.ctx
        key = clsname + '.' + name

        def wrapper(*args, **kwargs):
            if mon.depth > 0 or not mon.active:
                ctx.nested[key] += 1
                return fn(*args, **kwargs)
            cs = mon.contracts_for(clsname, name)
            ctx.outer[key] += 1
            mon.depth += 1
            try:
                if static:
                    call = Call(clsname, name, None, args, kwargs)
                elif new:
                    call = Call(clsname, name, None, args[1:], kwargs)
                else:
                    call = Call(clsname, name, args[0], args[1:], kwargs)
                ex = ctx.ex
                if ex is not None and not ex.in_run:
                    ex.record_direct(clsname, name, None if name in ('__init__', '__new__') else call.recv, call.args, kwargs)
                states = []
                for c in cs:
                    try:
                        states.append((c, c.pre(call)))
                    except ObsError:
                        # the value was already unusable before this call: not this call's fault (C09 judged
                        # the operation that produced it)
                        ctx.grey('pre-state-unobservable')
                    except Exception:
                        ctx.oracle_error('%s.pre %s' % (type(c).__name__, key))
                result = None
                exc = None
                b = mon.budget
                if b is not None:
                    b.start()
                try:
                    result = fn(*args, **kwargs)
                except BaseException as e:  # noqa - re-raised below
                    exc = e
                finally:
                    if b is not None:
                        n = b.stop()
                        if n > ctx.max_steps:
                            ctx.max_steps = n
                            ctx.max_steps_call = key
                if isinstance(exc, (KeyboardInterrupt, SystemExit, CaseTimeout)):
                    # (a wall-clock alarm going off inside the call says nothing about the library)
                    raise exc
                if isinstance(exc, StepBudgetExceeded) and not mon.budget_judged:
                    # safety net only: this check does not judge termination (C09/C10 do)
                    ctx.aborted['call-ran-into-safety-step-budget'] += 1
                    ctx.extra['n_budget_violations'] = ctx.extra.get('n_budget_violations', 0) + 1
                    raise exc
                for c, st in states:
                    try:
                        c.post(call, st, result, exc)
                    except ObsError as oe:
                        # observable before the call, not observable after it: the postcondition cannot hold
                        ctx.ev('post-state-observable')
                        ctx.violation('post-state-unobservable', {'error': repr(oe.exc)}, call,
                                      mech='unobservable-after:' + name)
                    except Exception:
                        ctx.oracle_error('%s.post %s' % (type(c).__name__, key))
            finally:
                mon.depth -= 1
                if mon.heartbeat is not None:
                    mon.heartbeat()
            if exc is not None:
                raise exc
            return result

        wrapper.__wrapped_fn__ = fn
        wrapper.__name__ = getattr(fn, '__name__', name)
        wrapper.__qualname__ = getattr(fn, '__qualname__', name)
        wrapper.__doc__ = getattr(fn, '__doc__', None)
        return wrapper

    # run oracle code that itself calls the library without being judged
    def quiet(self):
        return _Quiet(self)


class _Quiet:
    def __init__(self, mon):
        self.mon = mon

    def __enter__(self):
        self.mon.depth += 1
        if self.mon.budget is not None:
            self.mon.budget.start()
        if self.mon.heartbeat is not None:
            self.mon.heartbeat()

    def __exit__(self, *a):
        self.mon.depth -= 1
        return False
