"""pytest plugin: runs the repository's own test-suite as an extra workload under one property's passive
contracts (thorough tier).  No file in the repository is touched: load with
    python -m pytest -p vf.pytest_plugin <repo>/tests
with VF_PLUGIN_PROP=<id> and VF_PLUGIN_OUT=<json path>.  The monitors never raise into the tests."""
import importlib
import json
import os

_state = {}


def pytest_configure(config):
    prop = os.environ.get('VF_PLUGIN_PROP')
    if not prop:
        return
    from . import env
    from .monitor import Ctx, Monitor, StepBudget
    L = env.load()
    mod = importlib.import_module('vf.props.' + prop.lower())
    ctx = Ctx(L, prop, 'thorough', int(os.environ.get('VERIF_SEED', '0') or 0), 9999)
    ctx.extra['workload'] = 'repository test-suite under monitors'
    budget = StepBudget(L, mod.STEP_BUDGET) if getattr(mod, 'STEP_BUDGET', None) else None
    mon = Monitor(ctx, step_budget=budget)
    mon.contracts = mod.contracts(ctx, mon)
    mon.install()
    _state.update(ctx=ctx, mon=mon)


def pytest_runtest_setup(item):
    ctx = _state.get('ctx')
    if ctx is not None:
        ctx.case = {'seed': ctx.seed, 'tier': 'thorough', 'shard': 'repo-tests', 'case': item.nodeid}
        ctx.cases += 1


def pytest_sessionfinish(session, exitstatus):
    ctx = _state.get('ctx')
    if ctx is None:
        return
    _state['mon'].active = False
    d = ctx.dump()
    d['wall_s'] = 0.0
    d['pytest_exitstatus'] = int(exitstatus)
    out = os.environ.get('VF_PLUGIN_OUT')
    if out:
        with open(out, 'w') as f:
            json.dump(d, f, default=repr)
