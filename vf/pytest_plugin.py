"""pytest plugin: runs the repository's own test-suite as an extra workload under one property's passive
contracts (thorough tier).  No file in the repository is touched: load with
    python -m pytest -p vf.pytest_plugin <repo>/tests
with VF_PLUGIN_PROP=<id> and VF_PLUGIN_OUT=<json path>.  The monitors never raise into the tests."""
import importlib
import json
import os

_state = {}


def pytest_configure(config):
    prop = os.environ.get('VF_PLUGIN_PROP')
    if not prop:
        return
    from . import env
    from .monitor import Ctx, Monitor, StepBudget
    L = env.load()
    mod = importlib.import_module('vf.props.' + prop.lower())
    ctx = Ctx(L, prop, 'thorough', int(os.environ.get('VERIF_SEED', '0') or 0), 9999)
    ctx.extra['workload'] = 'repository test-suite under monitors'
    budget = StepBudget(L, mod.STEP_BUDGET) if getattr(mod, 'STEP_BUDGET', None) else None
    mon = Monitor(ctx, step_budget=budget)
    mon.contracts = mod.contracts(ctx, mon)
    mon.install()
    _state.update(ctx=ctx, mon=mon)


def pytest_runtest_setup(item):
    ctx = _state.get('ctx')
    if ctx is not None:
        ctx.case = {'seed': ctx.seed, 'tier': 'thorough', 'shard': 'repo-tests', 'case': item.nodeid}
        ctx.cases += 1


def run_readme_examples(ctx):
    """every ```py block of the repository's README executed under the same monitors (output discarded)"""
    import contextlib
    import io
    import re
    from . import env
    path = os.path.join(env.REPO, 'README.md')
    if not os.path.exists(path):
        return
    blocks = re.findall(r'```py\n(.*?)```', open(path, encoding='utf-8').read(), re.S)
    ran = failed = 0
    for i, code in enumerate(blocks):
        ctx.case = {'seed': ctx.seed, 'tier': 'thorough', 'shard': 'readme', 'case': i}
        ctx.cases += 1
        try:
            with contextlib.redirect_stdout(io.StringIO()):
                exec(compile(code, 'README.md:block%d' % i, 'exec'), {'__name__': '__readme__'})
            ran += 1
        except Exception:
            failed += 1     # a block that is not self-contained; the monitors still saw what ran
    ctx.extra['n_readme_blocks_run_under_monitors'] = ran
    ctx.extra['n_readme_blocks_not_self_contained'] = failed


def pytest_sessionfinish(session, exitstatus):
    ctx = _state.get('ctx')
    if ctx is None:
        return
    try:
        run_readme_examples(ctx)
    except Exception:
        ctx.oracle_error('readme examples')
    _state['mon'].active = False
    d = ctx.dump()
    d['wall_s'] = 0.0
    d['pytest_exitstatus'] = int(exitstatus)
    out = os.environ.get('VF_PLUGIN_OUT')
    if out:
        with open(out, 'w') as f:
            json.dump(d, f, default=repr)
