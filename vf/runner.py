"""Runner: shards a property check over subprocesses, merges what the monitors
observed, classifies violations against known_findings.txt, writes evidence and
replay files, and sets the exit code.

  ./check <ID> [quick|thorough] [--replay <path>] [--shrink <path>] [--shards N] [--keep]

exit 0: held on everything observed (KNOWN-FINDING lines allowed)
exit 1: at least one violation not listed as known -> "VIOLATION property=<id> replay=<path>"
exit 2: inconclusive (monitor not reached / shard died / oracle crashed) - never a VIOLATION line
"""
import collections
import importlib
import json
import os
import shutil
import subprocess
import sys
import tempfile
import time

from . import env

PY = os.environ.get('VERIF_PYTHON', '/venv/bin/python')
VERIF = env.VERIF_DIR
EVID = os.path.join(VERIF, 'evidence')
REPLAYS = os.path.join(VERIF, 'replays')
KNOWN = os.path.join(VERIF, 'known_findings.txt')
NSHARDS = {'quick': 4, 'thorough': 16}
WATCHDOG = {'quick': 600, 'thorough': 5400}


def load_known():
    known = []
    if os.path.exists(KNOWN):
        for line in open(KNOWN):
            line = line.strip()
            if not line.startswith('known:'):
                continue
            parts = line[len('known:'):].split()
            d = {'text': line}
            rest = []
            for p in parts:
                if p.startswith('property=') and 'property' not in d:
                    d['property'] = p.split('=', 1)[1]
                elif p.startswith('key=') and 'key' not in d:
                    d['key'] = p.split('=', 1)[1]
                else:
                    rest.append(p)
            d['what'] = ' '.join(rest)
            if 'property' in d and 'key' in d:
                known.append(d)
    return known


def child_env():
    e = dict(os.environ)
    e['PYTHONHASHSEED'] = '0'
    e['PYTHONDONTWRITEBYTECODE'] = '1'
    e['PYTHONPATH'] = VERIF + (os.pathsep + e['PYTHONPATH'] if e.get('PYTHONPATH') else '')
    e[env.GUARD] = '1'
    e.setdefault('VERIF_REPO', env.REPO)
    return e


def run_shards(prop, tier, seed, nshards, workdir, only=None):
    procs = []
    for sh in range(nshards):
        if only is not None and sh != only[0]:
            continue
        out = os.path.join(workdir, 'shard%d.json' % sh)
        cmd = [PY, '-m', 'vf.shard', prop, tier, str(seed), str(sh), str(nshards), out]
        if only is not None:
            cmd.append(str(only[1]))
        log = open(os.path.join(workdir, 'shard%d.log' % sh), 'w')
        p = subprocess.Popen(cmd, cwd=VERIF, env=child_env(), stdout=log, stderr=subprocess.STDOUT)
        procs.append((sh, p, out, log))
    deadline = time.time() + WATCHDOG[tier]
    results = []
    problems = []
    for sh, p, out, log in procs:
        try:
            p.wait(timeout=max(1, deadline - time.time()))
        except subprocess.TimeoutExpired:
            p.kill()
            p.wait()
            problems.append('shard %d: wall-clock watchdog fired (inconclusive)' % sh)
            continue
        finally:
            log.close()
        if p.returncode != 0 or not os.path.exists(out):
            tail = open(os.path.join(workdir, 'shard%d.log' % sh)).read()[-1500:]
            problems.append('shard %d: exit %s\n%s' % (sh, p.returncode, tail))
            continue
        results.append(json.load(open(out)))
    return results, problems


def run_repo_tests_under_monitors(prop, seed, workdir):
    """extra workload of the thorough tier: the repository's own tests executed under this property's passive
    contracts (pytest plugin vf.pytest_plugin; nothing in the repository is touched)"""
    tests = os.path.join(env.REPO, 'tests')
    if not os.path.isdir(tests):
        return None
    out = os.path.join(workdir, 'repo-tests.json')
    e = child_env()
    e['VF_PLUGIN_PROP'] = prop
    e['VF_PLUGIN_OUT'] = out
    e['VERIF_SEED'] = str(seed)
    try:
        p = subprocess.run([PY, '-m', 'pytest', '-q', '-p', 'no:cacheprovider', '-p', 'vf.pytest_plugin', '--timeout=900',
                            '--rootdir', env.REPO, '-c', os.path.join(env.REPO, 'pyproject.toml'), tests],
                           cwd=VERIF, env=e, capture_output=True, text=True, timeout=1500)
    except subprocess.TimeoutExpired:
        return 'repository tests under monitors: watchdog fired (inconclusive)'
    if not os.path.exists(out):
        return 'repository tests under monitors produced no report: ' + (p.stdout + p.stderr)[-600:]
    r = json.load(open(out))
    r.setdefault('extra', {})['n_repo_tests_run_under_monitors'] = r.get('cases', 0)
    r['extra']['repo_tests_pytest_exit'] = r.get('pytest_exitstatus')
    return r


def merge(results):
    m = {'evaluations': 0, 'clauses': collections.Counter(), 'nontrivial': set(), 'sigs': collections.Counter(),
         'greys': collections.Counter(), 'samples': [], 'violations': [], 'n_violations': 0,
         'oracle_errors': [], 'n_oracle_errors': 0, 'nested': collections.Counter(),
         'outer': collections.Counter(), 'aborted': collections.Counter(), 'cases': 0, 'max_steps': 0,
         'max_steps_call': None, 'extra': {}, 'wall_s': 0.0}
    for r in results:
        m['evaluations'] += r['evaluations']
        m['clauses'].update(r['clauses'])
        m['nontrivial'].update(r['nontrivial'])
        m['sigs'].update(r['sigs'])
        m['greys'].update(r['greys'])
        m['samples'] += r['samples'][:4]
        m['violations'] += r['violations']
        m['n_violations'] += r['n_violations']
        m['oracle_errors'] += r['oracle_errors']
        m['n_oracle_errors'] += r['n_oracle_errors']
        m['nested'].update(r['nested'])
        m['outer'].update(r['outer'])
        m['aborted'].update(r['aborted'])
        m['cases'] += r['cases']
        if r['max_steps'] > m['max_steps']:
            m['max_steps'] = r['max_steps']
            m['max_steps_call'] = r['max_steps_call']
        for k, v in r.get('extra', {}).items():
            if isinstance(v, (int, float)) and not isinstance(v, bool) and k.startswith('n_'):
                m['extra'][k] = m['extra'].get(k, 0) + v
            elif k == 'case_alarms':
                m['extra'].setdefault(k, []).extend(v)
            else:
                m['extra'].setdefault(k, v)
        if 'step_budget' in r:
            m['step_budget'] = r['step_budget']
        for f, d in (r.get('line_reach') or {}).items():
            t = m.setdefault('line_reach', {}).setdefault(f, {'executable': set(), 'hit': set()})
            t['executable'].update(d['executable'])
            t['hit'].update(d['hit'])
        m['wall_s'] = max(m['wall_s'], r.get('wall_s', 0))
    return m


def _ranges(lines):
    out = []
    for ln in lines:
        if out and ln == out[-1][1] + 1:
            out[-1][1] = ln
        else:
            out.append([ln, ln])
    return ['%d' % a if a == b else '%d-%d' % (a, b) for a, b in out]


def write_replay(prop, v, n):
    os.makedirs(REPLAYS, exist_ok=True)
    c = v.get('case') or {}
    name = '%s-%s-s%s-sh%s-c%s-%d.json' % (prop, c.get('tier', 'x'), c.get('seed', 'x'), c.get('shard', 'x'),
                                            c.get('case', 'x'), n)
    path = os.path.join(REPLAYS, name)
    with open(path, 'w') as f:
        json.dump(v, f, indent=1, default=repr)
    return path


def main(argv=None):
    argv = list(sys.argv[1:] if argv is None else argv)
    if not argv:
        print(__doc__)
        return 2
    prop = argv.pop(0).upper()
    if prop == 'SELFTEST':
        return subprocess.call([PY, '-m', 'vf.selftest'], cwd=VERIF, env=child_env())
    tier = os.environ.get('VERIF_TIER') or 'quick'
    replay = None
    nshards = None
    keep = False
    while argv:
        a = argv.pop(0)
        if a in ('quick', 'thorough'):
            tier = a
        elif a == '--replay':
            replay = argv.pop(0)
        elif a == '--shrink':
            # witness minimisation (vf/shrink.py); a reading aid, never part of a verdict
            return subprocess.call([PY, '-m', 'vf.shrink', prop, argv.pop(0)], cwd=VERIF, env=child_env())
        elif a == '--shards':
            nshards = int(argv.pop(0))
        elif a == '--keep':
            keep = True
        else:
            print('unknown argument', a)
            return 2
    seed = int(os.environ.get('VERIF_SEED', '0') or 0)
    mod = importlib.import_module('vf.props.' + prop.lower())
    t0 = time.time()
    workdir = tempfile.mkdtemp(prefix='vf-%s-' % prop)
    try:
        if replay:
            rec = json.load(open(replay))
            c = rec['case']
            tier = c['tier']
            seed = c['seed']
            ns = rec.get('nshards') or NSHARDS[tier]
            results, problems = run_shards(prop, tier, seed, ns, workdir, only=(c['shard'], c['case']))
            if not problems and not merge(results)['n_violations'] and c['case']:
                # the case alone is clean in a fresh process: the violation may need what earlier cases of the same
                # shard left behind in the library (module-level memo, mutable default, shared instance), so the
                # shard's cases 0..case are executed again in one process, as they were in the reporting run
                print('replay: case %s alone reproduces nothing; replaying cases 0..%s of shard %s in one process' % (
                    c['case'], c['case'], c['shard']))
                os.environ['VERIF_REPLAY_PREFIX'] = '1'
                try:
                    results, problems = run_shards(prop, tier, seed, ns, workdir, only=(c['shard'], c['case']))
                finally:
                    del os.environ['VERIF_REPLAY_PREFIX']
        else:
            ns = nshards or getattr(mod, 'NSHARDS', NSHARDS)[tier]
            results, problems = run_shards(prop, tier, seed, ns, workdir)
            if tier == 'thorough' and getattr(mod, 'contracts', None):
                r = run_repo_tests_under_monitors(prop, seed, workdir)
                if isinstance(r, dict):
                    results.append(r)
                elif r:
                    problems.append(r)
        m = merge(results)
        return report(prop, mod, tier, seed, ns, m, problems, time.time() - t0, replay)
    finally:
        if not keep:
            shutil.rmtree(workdir, ignore_errors=True)
        else:
            print('kept', workdir)


def report(prop, mod, tier, seed, ns, m, problems, wall, replay):
    known = [k for k in load_known() if k['property'] == prop]
    matched = collections.Counter()
    unlisted = []
    for v in m['violations']:
        hit = None
        for k in known:
            if v.get('mechanism') == k['key']:
                hit = k
                break
        if hit:
            matched[hit['text']] += 1
        else:
            unlisted.append(v)
    # violations beyond the per-shard record cap are counted but have no record; they share the
    # (clause, mechanism) keys of recorded ones by construction (cap is per key).
    inconclusive = list(problems)
    if m['n_oracle_errors']:
        inconclusive.append('%d oracle/driver errors (bug in the monitor, not a verdict); first:\n%s' % (
            m['n_oracle_errors'], (m['oracle_errors'][0] or {}).get('trace', '') if m['oracle_errors'] else ''))
    if m['extra'].get('n_case_alarms'):
        inconclusive.append('%d cases were abandoned by the no-progress wall-clock alarm (a call did not return '
                            'within the alarm period): hang suspected, judged by C09/C10 only; where: %s' % (
                                m['extra']['n_case_alarms'], json.dumps(m['extra'].get('case_alarms', [])[:5])))
    min_eval = getattr(mod, 'MIN_EVAL', 50)
    if not replay and m['evaluations'] < min_eval:
        inconclusive.append('deciding monitor evaluated %d cases (< %d)' % (m['evaluations'], min_eval))
    if not replay and len(m['nontrivial']) < 2:
        inconclusive.append('fewer than 2 distinct non-trivial cases observed')

    replay_paths = []
    no_evidence = bool(os.environ.get('VERIF_NO_EVIDENCE'))     # sensitivity runs against scratch copies
    if not replay:
        for i, v in enumerate(unlisted[:25]):
            v['nshards'] = ns
            replay_paths.append('(not written)' if no_evidence else write_replay(prop, v, i))
        # evidence describes /repo itself: a run against a scratch copy ($VERIF_REPO) never rewrites it
        if not no_evidence and env.REPO == '/repo':
            write_evidence(prop, mod, tier, seed, ns, m, wall, matched, unlisted, inconclusive)

    for text, n in matched.items():
        k = [k for k in known if k['text'] == text][0]
        print('KNOWN-FINDING: property=%s %s (key=%s, %d occurrences this run)' % (prop, k['what'], k['key'], n))
    print('%s %s seed=%d: %d evaluations, %d distinct non-trivial, %d cases, %d shards, %d violations '
          '(%d unlisted records), %.1fs' % (prop, tier, seed, m['evaluations'], len(m['nontrivial']), m['cases'],
                                           ns, m['n_violations'], len(unlisted), wall))
    if unlisted:
        if replay:
            print('VIOLATION property=%s replay=%s' % (prop, replay))
            v = unlisted[0]
            print('  clause=%s mechanism=%s' % (v['clause'], v.get('mechanism')))
            print('  detail=%s' % json.dumps(v['detail'], default=repr)[:1500])
        else:
            seen = set()
            for v, pth in zip(unlisted, replay_paths):
                k = (v['clause'], v.get('mechanism'))
                if k in seen:
                    continue
                seen.add(k)
                print('VIOLATION property=%s replay=%s' % (prop, pth))
                print('  clause=%s mechanism=%s' % (v['clause'], v.get('mechanism')))
                print('  detail=%s' % json.dumps(v['detail'], default=repr)[:1200])
        return 1
    if inconclusive:
        for p in inconclusive:
            print('INCONCLUSIVE property=%s %s' % (prop, p))
        return 2
    if replay:
        print('replay: no violation reproduced')
    return 0


def write_evidence(prop, mod, tier, seed, ns, m, wall, matched, unlisted, inconclusive):
    os.makedirs(EVID, exist_ok=True)
    cov = {
        'evaluations': m['evaluations'],
        'distinct_nontrivial': len(m['nontrivial']),
        'rule': mod.RULE,
        'samples': m['samples'][:10] or ['(no sample recorded)'],
        'exhaustive': bool(getattr(mod, 'EXHAUSTIVE', False)),
        'clause_evaluations': dict(m['clauses']),
        'situation_signatures': dict(sorted(m['sigs'].items(), key=lambda kv: -kv[1])[:150]),
        'distinct_signatures': len(m['sigs']),
        'grey_cases_by_reason': dict(m['greys']),
        'histories_or_cases_run': m['cases'],
        'shards': ns,
        'outermost_calls_observed': dict(sorted(m['outer'].items(), key=lambda kv: -kv[1])[:80]),
        'nested_calls_counted_not_judged': sum(m['nested'].values()),
        'histories_aborted_by_exception': dict(m['aborted']),
        'max_library_lines_in_one_call': m['max_steps'],
        'max_library_lines_call': m['max_steps_call'],
        'known_findings_matched': dict(matched),
        'unlisted_violation_records': len(unlisted),
        'inconclusive_reasons': inconclusive,
        'extra': m['extra'],
        'repo': env.REPO,
    }
    if 'step_budget' in m:
        cov['step_budget_lines'] = m['step_budget']
    if 'line_reach' in m:
        # reach of this check's workload inside the library (function bodies; sys.monitoring LINE events)
        cov['library_lines_reached'] = {
            f: {'executable': len(d['executable']), 'executed_at_least_once': len(d['hit']),
                'never_executed': _ranges(sorted(d['executable'] - d['hit']))}
            for f, d in sorted(m['line_reach'].items())}
    ev = {'property_id': prop, 'tier': tier, 'seed': seed, 'level': 'exploration', 'coverage': cov,
          'assumptions': list(getattr(mod, 'ASSUMPTIONS', [])), 'wall_s': round(wall, 2),
          'violations': m['n_violations']}
    tmp = os.path.join(EVID, prop + '.json.tmp')
    try:
        text = json.dumps(ev, indent=1, default=repr)
    except (RecursionError, ValueError, TypeError):
        # a sample that cannot be serialised must not cost the run its evidence
        cov['samples'] = [repr(x)[:400] for x in cov['samples']]
        cov['situation_signatures'] = {str(k): v for k, v in cov['situation_signatures'].items()}
        text = json.dumps(ev, indent=1, default=repr)
    with open(tmp, 'w') as f:
        f.write(text)
    os.replace(tmp, os.path.join(EVID, prop + '.json'))


def guarded_main():
    try:
        return main()
    except SystemExit:
        raise
    except BaseException:
        # a bug of the runner itself is never a verdict about the library
        import traceback
        traceback.print_exc()
        print('INCONCLUSIVE runner error (see traceback above)')
        return 2


if __name__ == '__main__':
    sys.exit(guarded_main())
