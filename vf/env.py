"""Locate and import the code under test from the *current working tree*.

$VERIF_REPO (default /repo) is put first on sys.path; the import is asserted to
come from there, so an editable install or a stale copy can never be observed
instead.  Nothing is cached between runs (PYTHONDONTWRITEBYTECODE is set by the
runner for the children, and .pyc files are keyed on source mtime anyway).
"""
import os
import sys

VERIF_DIR = os.path.dirname(os.path.dirname(os.path.abspath(__file__)))
REPO = os.path.abspath(os.environ.get('VERIF_REPO', '/repo'))
SRC = os.path.join(REPO, 'src')
LIB_DIR = os.path.join(SRC, 'ansi_string')
GUARD = 'ANSI_STRING_VERIF'

_loaded = None


class Lib:
    """Namespace of the library objects the monitors use."""


def load():
    global _loaded
    if _loaded is not None:
        return _loaded
    if SRC in sys.path:
        sys.path.remove(SRC)
    sys.path.insert(0, SRC)
    for k in [k for k in sys.modules if k == 'ansi_string' or k.startswith('ansi_string.')]:
        del sys.modules[k]
    import ansi_string  # noqa
    got = os.path.dirname(os.path.abspath(ansi_string.__file__))
    if os.path.realpath(got) != os.path.realpath(LIB_DIR):
        raise RuntimeError('ansi_string imported from %s, expected %s' % (got, LIB_DIR))
    import ansi_string.ansi_string as core
    import ansi_string.ansi_parsing as parsing
    import ansi_string.ansi_format as fmt
    import ansi_string.ansi_param as param
    L = Lib()
    L.pkg = ansi_string
    L.core = core
    L.parsing = parsing
    L.fmt = fmt
    L.param = param
    L.AnsiString = core.AnsiString
    L.AnsiStr = core.AnsiStr
    L.AnsiFormat = fmt.AnsiFormat
    L.AnsiSetting = fmt.AnsiSetting
    L.ColorComponentType = fmt.ColorComponentType
    L.ParsedCS = parsing.ParsedAnsiControlSequenceString
    L.parse_graphic_sequence = parsing.parse_graphic_sequence
    L.settings_to_dict = parsing.settings_to_dict
    L.AnsiString.WITH_ASSERTIONS = True
    _loaded = L
    return L
