"""One shard of one property check (child process of the runner).

usage: python -m vf.shard PROP TIER SEED SHARD NSHARDS OUT [CASE]
"""
import importlib
import json
import os
import sys
import time


def main(argv):
    prop, tier, seed, shard, nshards, out = argv[:6]
    only_case = int(argv[6]) if len(argv) > 6 and argv[6] != '' else None
    seed = int(seed)
    shard = int(shard)
    from . import env
    from .monitor import Ctx, LineReach, Monitor, StepBudget
    L = env.load()
    mod = importlib.import_module('vf.props.' + prop.lower())
    ctx = Ctx(L, prop, tier, seed, shard)
    ctx.extra['nshards'] = int(nshards)
    judged = bool(getattr(mod, 'STEP_BUDGET', None))
    # the line-counting budget costs 2-4x, so only the checks that judge termination (C09-C11) install it; the others
    # are protected against hangs by the per-case wall-clock alarm of run_cases (never a verdict)
    budget = StepBudget(L, mod.STEP_BUDGET) if judged else None
    mon = Monitor(ctx, step_budget=budget, budget_judged=judged)
    mon.contracts = mod.contracts(ctx, mon)
    mon.install()
    reach = LineReach(L)
    reach.install()
    ctx.extra['lib_file'] = L.core.__file__
    t0 = time.time()
    try:
        mod.drive(ctx, mon, tier, only_case=only_case)
    except Exception:
        ctx.oracle_error('drive')
    mon.active = False
    d = ctx.dump()
    d['wall_s'] = time.time() - t0
    if reach.installed:
        d['line_reach'] = reach.dump()
    if judged:
        d['step_budget'] = budget.budget
    tmp = out + '.tmp'
    with open(tmp, 'w') as f:
        json.dump(d, f, default=repr)
    os.replace(tmp, out)


if __name__ == '__main__':
    main(sys.argv[1:])
