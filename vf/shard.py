"""One shard of one property check (child process of the runner).

usage: python -m vf.shard PROP TIER SEED SHARD NSHARDS OUT [CASE]
"""
import importlib
import json
import os
import sys
import time


def main(argv):
    prop, tier, seed, shard, nshards, out = argv[:6]
    only_case = int(argv[6]) if len(argv) > 6 and argv[6] != '' else None
    seed = int(seed)
    shard = int(shard)
    from . import env
    from .monitor import Ctx, Monitor, StepBudget
    L = env.load()
    mod = importlib.import_module('vf.props.' + prop.lower())
    ctx = Ctx(L, prop, tier, seed, shard)
    ctx.extra['nshards'] = int(nshards)
    budget = None
    if getattr(mod, 'STEP_BUDGET', None):
        budget = StepBudget(L, mod.STEP_BUDGET)
    mon = Monitor(ctx, step_budget=budget)
    mon.contracts = mod.contracts(ctx, mon)
    mon.install()
    ctx.extra['lib_file'] = L.core.__file__
    t0 = time.time()
    try:
        mod.drive(ctx, mon, tier, only_case=only_case)
    except Exception:
        ctx.oracle_error('drive')
    mon.active = False
    d = ctx.dump()
    d['wall_s'] = time.time() - t0
    if budget is not None:
        d['step_budget'] = budget.budget
    tmp = out + '.tmp'
    with open(tmp, 'w') as f:
        json.dump(d, f, default=repr)
    os.replace(tmp, out)


if __name__ == '__main__':
    main(sys.argv[1:])
